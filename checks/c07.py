"""C07 -- a model is left behaviourally unchanged by every call, even one that fails.

Leg 'enum'  (fault enumeration): for a generated (model, op) pair, count how
  often every call-level seam is hit, then inject an exception at EVERY
  (seam, k) and for every exception type, plus every invalid-input variant,
  each on a fresh copy of the model; after the op returns or raises, the model
  must satisfy the snapshot invariants (no hooks, bit-identical state, same
  outputs and ordinary gradients, no train-mode switch).
Leg 'hist'  (history simulation): a session of ops -- some carrying a fault --
  on ONE shared model, compared op by op with the same op on a pristine copy.
"""

import copy

import torch

from simkit import core, minimise, repo, runner

EXC_TYPES = ["RuntimeError", "KeyboardInterrupt", "ValueError"]
SEAMS = ["forward", "backward", "refgen", "rule", "func", "shuffle_fn", "act_forward",
	"loss"]


class C07(runner.Check):
	prop_id = "C07"
	level = "fault_enumeration"
	hang_s = 300
	isolate_cases = True      # module-level state of the code under test must not leak between cases
	rule = ("Leg 'enum': one evaluation = one generated (model architecture, API op) "
		"pair for which EVERY crash point is enumerated: each seam in {model forward, "
		"autograd backward, reference generator, custom non-linearity rule, func, "
		"shuffle_fn} x every k-th hit (k = 1..count measured by a dry run) x 3 exception "
		"types (RuntimeError, ValueError, KeyboardInterrupt) plus every invalid-input "
		"variant of the op, each executed on a fresh copy of the model and followed by "
		"the full snapshot comparison. Leg 'hist': one evaluation = one session of 2-8 "
		"ops on a shared model, some ops carrying one fault, each compared with the "
		"same op on a pristine copy. An evaluation is non-trivial when at least one "
		"fault actually fired inside an op that had registered DeepLIFT hooks or "
		"reached the model; distinct = distinct event-log digests. A tenth of the models "
		"carry a Softmax with the implicit (deprecated) dim on a 3-D activation, i.e. "
		"behaviour stored in a plain attribute that no state_dict shows.")
	assumptions = [
		"faults are injected at the call-level seams the property names (validation, "
		"reference generator, forward pass, back-propagation, func/shuffle_fn callables); "
		"arbitrary-bytecode interruption is not injected because an interrupt inside the "
		"clean-up code would defeat any implementation",
		"leftover scratch attributes (module.input/.output/_NON_LINEAR_OPS) are counted "
		"as probes, not violations: the statement speaks of behaviour, hooks, parameters "
		"and buffers",
		"device is always 'cpu' (device='cuda' is used as a genuinely failing input)",
		"bit-equality of forward outputs and gradients relies on single-threaded "
		"deterministic CPU kernels (torch threads pinned to 1)",
	]
	real_vs_stub = {
		"real": ["all tangermeme functions taking a model", "torch autograd, hooks, "
			"modules", "dinucleotide_shuffle / shuffle (compiled numba)"],
		"stub": ["design._fast_tile_substitute runs as its pure-Python body (numba's "
			"OpenMP layer must not start inside forked torch workers)"],
		"simulated": ["the model is generated and contains a FaultPoint identity layer "
			"(forward/backward seams)", "reference generator / func / shuffle_fn / custom "
			"rule are wrapped callables consulting the fault plan"],
	}
	tiers = {
		"quick": {"legs": [("enum", 1000), ("hist", 1400)], "wall_cap_s": 900,
			"chunk": 10},
		"thorough": {"legs": [("enum", 40000), ("hist", 40000)], "wall_cap_s": 5400,
			"chunk": 40},
	}

	def prepare(self, tier, fresh=False):
		repo.setup()
		import tangermeme.deep_lift_shap    # noqa
		from tangermeme import ersatz
		# compile the (sequential) shuffle kernel once before forking
		import torch
		ersatz.dinucleotide_shuffle(torch.eye(4)[None].repeat(1, 1, 3), n=1,
			random_state=0)
		# greedy_substitution tiles candidate sequences with a numba *parallel*
		# helper; starting numba's OpenMP layer inside a forked worker that also
		# runs torch corrupts torch's OpenMP pool ("Invalid thread pool!") and
		# breaks replay.  The helper is irrelevant to C07 (it never sees the
		# model), so its pure-Python body is used instead.
		import warnings
		warnings.filterwarnings("ignore", message="Implicit dimension choice")
		from tangermeme import design
		if hasattr(design._fast_tile_substitute, "py_func"):
			design._fast_tile_substitute = design._fast_tile_substitute.py_func

	# -- generation ----------------------------------------------------------
	def gen_case(self, leg, seed, tier):
		from engines import modelworld as mw, modelops as mo
		S = core.Streams(seed)
		r = S("workload")
		mspec = mw.gen_spec(r)
		x_ = S("softmax")
		if x_.chance(0.1):
			# a layer whose behaviour hangs on a plain (non-tensor) attribute
			mspec["trunk"].insert(x_.randint(0, len(mspec["trunk"])),
				{"t": "act", "name": "SoftmaxImplicit"})
		case = {"leg": leg, "seed": seed, "model": mspec, "probe_seed": r.subseed()}
		if leg == "enum":
			# bias toward the op with hooks; the rest share predict
			ops = None if r.chance(0.45) else ["deep_lift_shap", "deep_lift_shap",
				"marginalize", "ablate", "space", "substitution_effect",
				"saturation_mutagenesis"]
			case["op"] = mo.gen_op(r, mspec, ops=ops)
			case["op"]["ambient"] = r.wchoice([None, "no_grad", "default_float64"], [6, 1, 1])
			return case
		f = S("faults")
		ops = []
		for _ in range(r.randint(2, 8)):
			op = mo.gen_op(r, mspec)
			op["ambient"] = r.wchoice([None, "no_grad", "default_float64"], [6, 1, 1])
			fault = None
			bad = None
			if f.chance(0.35):
				if f.chance(0.35) and mo.BAD_INPUTS.get(op["op"]):
					bad = f.choice(mo.BAD_INPUTS[op["op"]])
				else:
					fault = {"seam": f.choice(SEAMS), "k": f.wchoice([1, 2, 3, 5],
						[5, 3, 2, 1]), "exc": f.choice(EXC_TYPES)}
			ops.append({"spec": op, "fault": fault, "bad": bad})
		case["ops"] = ops
		case["flip_train"] = [i for i in range(len(ops)) if f.chance(0.1)]
		return case

	# -- execution -----------------------------------------------------------
	def _exec(self, model, mspec, op, fault, bad):
		"""Run one op under a fault plan; returns (status, result, plan)."""
		from engines import modelworld as mw, modelops as mo
		import contextlib
		plan = mw.set_plan(mw.FaultPlan(fault))
		amb = op.get("ambient")
		ctx = torch.no_grad() if amb == "no_grad" else contextlib.nullcontext()
		dd = torch.get_default_dtype()
		try:
			if amb == "default_float64":
				torch.set_default_dtype(torch.float64)
			with ctx:
				res = mo.run_op(model, mspec, op, bad=bad)
			status = "returned"
		except BaseException as e:
			if isinstance(e, (SystemExit, GeneratorExit)):
				raise
			res = None
			status = "raised:" + ("Injected" if isinstance(e, mw.Injected) else "") + \
				type(e).__name__.replace("Injected", "")
			plan.last_exc = "%s: %s" % (type(e).__name__, str(e)[:160])
		finally:
			plan.armed = False
			torch.set_default_dtype(dd)
		return status, res, plan

	def _probe_inputs(self, mspec, seed):
		from engines import modelworld as mw
		dt = torch.float64 if mspec.get("dtype", "float64") == "float64" else torch.float32
		pX = mw.gen_onehot(seed, 4, mspec["L"], dtype=dt)
		pargs = ()
		if mspec.get("n_args", 0):
			pargs = mw.make_args(mspec, 4, dt, lo=-0.5, hi=1.0)
		return pX, pargs

	def run_case(self, case):
		if case["leg"] in ("enum", "single"):
			return self._run_enum(case)
		return self._run_hist(case)

	def _run_enum(self, case):
		from engines import modelworld as mw, modelops as mo
		out = core.Outcome()
		log = core.EventLog()
		mspec, op = case["model"], case["op"]
		log.log("case", mspec, op)
		if any(l.get("name") == "SoftmaxImplicit" for l in mspec["trunk"]):
			out.bump("world.softmax_implicit_dim")
		pristine = mw.build_model(mspec)
		pX, pargs = self._probe_inputs(mspec, case["probe_seed"])
		if case["leg"] == "single":
			points = [(case.get("fault"), case.get("bad"))]
		else:
			status, res, plan = self._exec(mw.clone_model(pristine), mspec, op, None, None)
			log.log("dry", status, plan.counts)
			out.bump("enum.dry_run." + status.split(":")[0])
			points = [(None, None)]
			for seam in SEAMS:
				for k in range(1, plan.counts.get(seam, 0) + 1):
					for exc in EXC_TYPES:
						points.append(({"seam": seam, "k": k, "exc": exc}, None))
			for bad in mo.BAD_INPUTS.get(op["op"], []):
				points.append((None, bad))
			out.note("crash_points_per_spec", (case.get("seed"), len(points)))
		fired_any = False
		for fault, bad in points:
			model = mw.clone_model(pristine)
			snap = mw.Snapshot(model, pX, pargs)
			if snap.probe is None:
				out.skipped = "probe itself fails on the pristine model: %s" % snap.probe_err
				break
			status, res, plan = self._exec(model, mspec, op, fault, bad)
			out.steps += 1
			out.bump("executions")
			out.bump("op." + op["op"])
			if fault is not None:
				if plan.fired:
					fired_any = True
					out.bump("fault.fired.%s" % fault["seam"])
					out.bump("fault.fired.exc.%s" % fault["exc"])
					out.note("crash_points", (op["op"], op.get("func"), fault["seam"],
						fault["k"], fault["exc"]))
					if not status.startswith("raised"):
						out.bump("probe.fault_swallowed")
				else:
					out.bump("fault.not_reached")
			if bad is not None:
				out.bump("bad_input.%s.%s" % (bad, status.split(":")[0]))
				if status.startswith("raised"):
					fired_any = True
			if mw.scratch_attrs(model):
				out.bump("probe.scratch_attrs_left")
			broken = snap.compare(model)
			log.log("point", fault, bad, status, [b[0] for b in broken])
			for klass, detail in broken:
				where = ("fault %s#%d %s" % (fault["seam"], fault["k"], fault["exc"])
					if fault else ("invalid input %r" % bad if bad else "no fault"))
				out.violate(klass, "%s(func=%s) on a fresh model, %s -> op %s%s; then: %s" %
					(op["op"], op.get("func"), where, status,
					" (%s)" % getattr(plan, "last_exc", "") if status.startswith("raised")
					else "", detail),
					key={"op": op["op"], "seam": fault["seam"] if fault else None,
						"kbi": bool(fault and fault["exc"] == "KeyboardInterrupt"),
						"bad": bad},
					fault=fault, bad=bad)
		out.nontrivial = fired_any
		out.digest = log.digest()
		out.sample = {"leg": case["leg"], "seed": case.get("seed"), "op": op,
			"model_trunk": [l.get("name", l["t"]) for l in mspec["trunk"]],
			"model_head": [l.get("name", l["t"]) for l in mspec["head"]],
			"crash_points_enumerated": len(points)}
		return out

	def _run_hist(self, case):
		from engines import modelworld as mw
		out = core.Outcome()
		log = core.EventLog()
		mspec = case["model"]
		log.log("case", mspec)
		if any(l.get("name") == "SoftmaxImplicit" for l in mspec["trunk"]):
			out.bump("world.softmax_implicit_dim")
		pristine = mw.build_model(mspec)
		shared = mw.clone_model(pristine)
		pX, pargs = self._probe_inputs(mspec, case["probe_seed"])
		after_fault = False
		fired_any = False
		for i, o in enumerate(case["ops"]):
			op, fault, bad = o["spec"], o["fault"], o["bad"]
			if i in case.get("flip_train", []):
				shared.train()
				out.bump("global.model_train()")
			snap = mw.Snapshot(shared, pX, pargs)
			if snap.probe is None:
				out.violate("probe_raises", "before op %d the shared model can no longer "
					"run an ordinary forward/backward pass: %s" % (i, snap.probe_err),
					key={"op": op["op"], "seam": None, "kbi": False, "bad": None})
				break
			ref_model = mw.clone_model(pristine)
			s_ref, r_ref, p_ref = self._exec(ref_model, mspec, op, fault, bad)
			s_sh, r_sh, p_sh = self._exec(shared, mspec, op, fault, bad)
			out.steps += 1
			out.bump("ops")
			out.bump("op." + op["op"])
			if p_sh.fired:
				fired_any = True
				out.bump("fault.fired.%s" % fault["seam"])
			if bad is not None and s_sh.startswith("raised"):
				fired_any = True
				out.bump("bad_input." + bad)
			key = {"op": op["op"], "seam": fault["seam"] if fault else None,
				"kbi": bool(fault and fault["exc"] == "KeyboardInterrupt"), "bad": bad}
			log.log("op", i, op["op"], fault, bad, s_ref, s_sh)
			hist = [x["spec"]["op"] + ("!" if (x["fault"] or x["bad"]) else "")
				for x in case["ops"][:i + 1]]
			if s_ref.split(":")[0] != s_sh.split(":")[0] or \
					(s_ref.startswith("raised") and s_ref != s_sh):
				out.violate("history_outcome_differs", "history %r: op %d on the shared "
					"model %s (%s) but on a pristine copy %s (%s)" % (hist, i, s_sh,
					getattr(p_sh, "last_exc", ""), s_ref, getattr(p_ref, "last_exc", "")),
					key=key)
			elif s_sh == "returned":
				same = len(r_ref) == len(r_sh) and all(
					mw._tbytes(a) == mw._tbytes(b) for a, b in zip(r_ref, r_sh))
				if after_fault:
					out.bump("probe.first_clean_op_after_fault")
				if not same:
					out.violate("history_result_differs", "history %r: op %d returns a "
						"different result on the shared model than on a pristine copy" %
						(hist, i), key=key)
				after_fault = False
			if s_sh.startswith("raised"):
				after_fault = True
			for klass, detail in snap.compare(shared):
				out.violate(klass, "history %r: after op %d (%s, fault=%r, bad=%r -> %s): "
					"%s" % (hist, i, op["op"], fault, bad, s_sh, detail), key=key)
			if out.violations:
				break
			log.log("res", i, [mw._tbytes(t) for t in (r_sh or [])])
		out.nontrivial = fired_any
		out.note("histories", tuple((o["spec"]["op"], bool(o["fault"] or o["bad"]))
			for o in case["ops"]))
		out.digest = log.digest()
		out.sample = {"leg": "hist", "seed": case.get("seed"), "ops": [
			{"op": o["spec"]["op"], "func": o["spec"].get("func"), "fault": o["fault"],
			"bad": o["bad"]} for o in case["ops"]]}
		return out

	# -- minimisation ----------------------------------------------------------
	def minimise(self, case, klass, key):
		b = minimise.Budget(120)
		case = copy.deepcopy(case)
		if case["leg"] == "enum":
			# reduce to the single crash point that violates
			out = runner.run_one(self, case)
			for v in out.violations:
				if v.klass == klass and v.signature.get("key") == key:
					single = dict(case, leg="single", fault=v.signature.get("fault"),
						bad=v.signature.get("bad"))
					if self.still_fails(single, klass, key):
						case = single
					break
		test = lambda c: self.still_fails(c, klass, None)
		if case["leg"] == "hist":
			case = minimise.ddmin_list(case, ["ops"], test, b, min_len=1,
				fix=lambda c: dict(c, flip_train=[]))
			return case
		if case["leg"] == "single":
			case = self._shrink_model(case, test, b)
			for path in (["op", "n"], ["op", "dls", "n_shuffles"]):
				try:
					case = minimise.shrink_int(case, path, test, b, lo=1)
				except (KeyError, TypeError):
					pass
		return case

	def _shrink_model(self, case, test, b):
		for part in ("trunk", "head"):
			i = 0
			while i < len(case["model"][part]) and b.left > 0:
				ly = case["model"][part][i]
				if ly["t"] in ("dropout", "bn", "avgpool", "maxpool"):
					c2 = copy.deepcopy(case)
					del c2["model"][part][i]
					try:
						if b.spend() and test(c2):
							case = c2
							continue
					except Exception:
						pass
				i += 1
		return case

	def extra_coverage(self, agg, tier):
		pts = agg.distinct.get("crash_points", set())
		return {"distinct_crash_points (op, func, seam, k, exception)": len(pts),
			"exhaustive_within_each_enum_spec": True,
			"fault_kinds": ["exc.forward(k)", "exc.backward(k)", "exc.refgen(k)",
				"exc.rule(k)", "exc.func(k)", "exc.shuffle_fn(k)", "bad.input.*",
				"global.model_train()"]}


CHECK = C07()
