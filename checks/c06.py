"""C06 -- attributions do not depend on batch size, co-batched examples or call order.

History simulation: deep_lift_shap is a small streaming pipeline (producer of
(example, shuffle) pairs cut into batches; consumer re-assembling per-example
blocks).  The cut points are the schedule; everything that can leak between
calls (hooks, model mode, numba/NumPy RNG state, thread) is the history.  A
session of calls on ONE shared model is checked against the canonical result of
each example computed alone on a pristine copy.
"""

import copy
import threading
import warnings

import numpy
import torch

from simkit import core, minimise, repo, runner


def _kwargs_wrapper(X, **kw):
	"""A user's reference function that forwards everything (the seed arrives
	through **kwargs, not through a parameter named random_state)."""
	from tangermeme.ersatz import dinucleotide_shuffle
	return dinucleotide_shuffle(X, **kw)


def _refgen(name):
	if name == "kwargs_wrapper":
		return _kwargs_wrapper
	from tangermeme import ersatz
	return getattr(ersatz, name)


class _Conditioning(object):
	"""Observes (on a private clone of the model) whether a forward pass sits on
	one of the discontinuities of the DeepLIFT rules."""

	def __init__(self):
		self.reason = None

	def observe(self, model):
		for m in model.modules():
			if isinstance(m, torch.nn.MaxPool1d):
				m.register_forward_pre_hook(self._pool)
			elif type(m).__module__.startswith("torch.nn.modules.activation"):
				m.register_forward_pre_hook(self._act)

	def _pool(self, module, inputs):
		x = inputs[0].detach()
		k = module.kernel_size if isinstance(module.kernel_size, int) else module.kernel_size[0]
		st = module.stride if isinstance(module.stride, int) else module.stride[0]
		if x.shape[-1] < k:
			return
		w = x.unfold(-1, k, st)
		top = torch.topk(w, min(2, k), dim=-1).values
		if k >= 2:
			gap = (top[..., 0] - top[..., 1]).abs()
			if bool((gap <= 1e-9 * top[..., 0].abs().clamp(min=1.0)).any()):
				self.reason = "near-tie inside a max-pool window"
		self._delta(x, 1e-7, "max-pool")

	def _act(self, module, inputs):
		self._delta(inputs[0].detach(), 1e-6, "activation")

	def _delta(self, x, thr, what):
		if x.shape[0] % 2:
			return
		a, b = x.chunk(2)
		d = (a - b).abs()
		if bool(((d - thr).abs() < 1e-9).any()):
			self.reason = "|delta_in| on the %g switch of the %s rule" % (thr, what)


class C06(runner.Check):
	prop_id = "C06"
	level = "exploration"
	hang_s = 300
	isolate_cases = True      # module-level state of the code under test must not leak between cases
	rule = ("One evaluation = one session on a shared generated model: 4-14 operations "
		"drawn from {deep_lift_shap over a subset/permutation/duplication of the example "
		"set with a seeded batch_size (biased to 1, n_shuffles-1, n_shuffles, "
		"n_shuffles+1, multiples and coprimes), output mode, return_references, "
		"generator+integer seed or explicit reference tensor; the same through "
		"marginalize(func=deep_lift_shap); global perturbations: reseeding/advancing "
		"numpy.random and torch, numba.set_num_threads, model.train(), predict / "
		"saturation_mutagenesis on the same model, running the call from another "
		"thread; and (fault-injecting configuration only) a deep_lift_shap call that "
		"fails by an injected exception}. Every completed attribution row is compared "
		"with the canonical single-example result, every returned reference bit for "
		"bit. Non-trivial: at least one batch straddled two examples or a "
		"perturbation preceded a call; distinct = distinct event-log digests. Leg 'scale': "
		"one evaluation = one deep_lift_shap call at a scale the sessions never reach "
		"(20-90 examples x 12-40 shuffles in batches of 1025..n*ns rows, or 2^15+k / "
		"2^16+k examples with one shuffle); ~16 sampled rows incl. the last ones and those "
		"around 32768 / 65536 are compared with the example computed alone.")
	assumptions = [
		"models are float64 (as in the quantifier's C04 generator); attributions are "
		"compared with rtol 1e-9 of the row scale because batching legitimately changes "
		"the floating-point summation order inside BLAS; returned references are compared "
		"bit for bit",
		"random_state is always an integer or references an explicit tensor, as the "
		"statement requires for repeatability",
		"worlds whose canonical forward passes sit on a discontinuity of the DeepLIFT rules "
		"(two values of a max-pool window equal to within 1e-9, or |delta_in| within 1e-9 of "
		"the 1e-6 / 1e-7 rule switch) are skipped and counted: there a last-bit difference "
		"between batch shapes legitimately moves attribution between tied positions",
		"a session in which an injected failure breaks the C07 invariants is abandoned "
		"and counted (aborted_c07_precondition), not reported here: that leak is C07's",
	]
	real_vs_stub = {
		"real": ["deep_lift_shap, marginalize, predict, saturation_mutagenesis",
			"dinucleotide_shuffle (compiled numba RNG)", "torch autograd/hooks"],
		"simulated": ["generated models with a FaultPoint layer", "wrapped reference "
			"generator (fault seam)", "caller thread (baton-passed: one runs at a time)"],
	}
	tiers = {
		"quick": {"legs": [("clean", 1000), ("faulty", 500), ("scale", 14)],
			"wall_cap_s": 900, "chunk": 10},
		"thorough": {"legs": [("clean", 40000), ("faulty", 20000), ("scale", 400)],
			"wall_cap_s": 5400, "chunk": 40},
	}

	def prepare(self, tier, fresh=False):
		repo.setup()
		from tangermeme import ersatz
		ersatz.dinucleotide_shuffle(torch.eye(4)[None].repeat(1, 1, 3), n=1,
			random_state=0)

	# -- generation ----------------------------------------------------------
	def gen_case(self, leg, seed, tier):
		from engines import modelworld as mw
		S = core.Streams(seed)
		r = S("workload")
		L = r.randint(8, 40)
		mspec = mw.gen_spec(r, L=L, allow_custom=False)
		# float64 only (the C04 generator the quantifier names): in float32 the
		# rescale rule delta_out/delta_in with |delta_in| ~ 1e-6 is within a factor
		# 10 of machine epsilon, so batch shape changes results at the 1e-3 level
		# for reasons that have nothing to do with the batching bookkeeping
		mspec["dtype"] = "float64"
		# states that only make sense for C07 (every deep_lift_shap call raises /
		# everything is subnormal)
		mspec["legacy_bwd_history"] = False
		mspec["tiny_weights"] = False
		if leg == "scale":
			return self._gen_scale(seed, S, mspec)
		n = r.wchoice([r.randint(1, 6), r.randint(9, 12)], [6, 1])
		ns = r.randint(1, 6) if n <= 6 else r.randint(1, 3)
		# the reference *function*: the default dinucleotide shuffle, or the plain
		# shuffle (any callable with that signature is legal)
		world_refgen = r.wchoice(["dinucleotide_shuffle", "shuffle", "kwargs_wrapper"],
			[4, 1, 1])
		world = {"n": n, "n_shuffles": ns, "refgen": world_refgen, "xseed": r.subseed(),
			"random_state": r.randint(0, 1000), "target": r.randint(0,
			mspec["n_targets"] - 1)}
		f = S("faults")
		ops = []
		for _ in range(r.randint(4, 14)):
			kind = r.wchoice(["dls", "marg", "np_seed", "np_draw", "torch_seed",
				"numba_threads", "train", "predict", "ism", "custom_ops", "edit_model", "fail"],
				[14, 2, 1, 1, 1, 1, 1, 1, 1, 1, 0.7, 3 if leg == "faulty" else 0])
			op = {"kind": kind}
			if kind in ("dls", "marg", "fail"):
				m = r.wchoice(["subset", "perm", "dup", "all", "single"], [3, 3, 2, 2, 2])
				if m == "all":
					idx = list(range(n))
				elif m == "single":
					idx = [r.randint(0, n - 1)]
				elif m == "perm":
					idx = r.shuffle(range(n))
				elif m == "subset":
					idx = sorted(r.sample(range(n), r.randint(1, n)))
				else:
					k = r.randint(1, n + 2)
					idx = [r.randint(0, n - 1) for _ in range(k)]
				total = len(idx) * ns
				cands = [1, max(1, ns - 1), ns, ns + 1, 2 * ns, 3 * ns, total, total + 1,
					max(1, total - 1), 32, r.randint(1, total + 1), r.randint(1, total + 1)]
				op.update(idx=idx, batch_size=r.choice(cands),
					mode=r.wchoice(["processed", "hypothetical", "raw"], [3, 2, 2]),
					refs=r.wchoice(["gen", "tensor", "tensor_tiny", "tensor_mixed"], [6, 2, 1, 1]),
					tiny_eps=r.choice([2e-6, 5e-6, 1e-5, 1e-4]),
					return_references=r.chance(0.4), thread=r.chance(0.12),
					seed_type=r.wchoice(["int", "numpy.int64", "numpy.int32"], [6, 1, 1]),
					xview=r.wchoice(["contig", "strided"], [4, 1]),
					verbose=r.chance(0.15),
					args_as=r.choice(["tuple", "list"]))
				if op["refs"] != "gen":
					op["return_references"] = False
				if r.chance(0.25):
					op["interfere"] = {"points": sorted(set(r.randint(1, 400)
						for _ in range(r.randint(1, 3)))), "what": r.choice(["np_draw",
						"np_seed", "torch_seed"])}
				if kind == "marg":
					op["mode"] = r.choice(["processed", "hypothetical"])
					op["refs"] = "gen"
					op["return_references"] = False
					op["motif"] = "".join(r.choice("ACGT") for _ in range(r.randint(1, 3)))
				if kind == "fail":
					op["fault"] = {"seam": f.choice(["forward", "backward", "refgen"]),
						"k": f.randint(1, 3), "exc": f.choice(["RuntimeError",
						"ValueError", "KeyboardInterrupt"])}
			elif kind in ("np_seed", "torch_seed"):
				op["v"] = r.randint(0, 10 ** 6)
			elif kind == "numba_threads":
				op["v"] = r.randint(1, 4)
			ops.append(op)
		return {"leg": leg, "seed": seed, "model": mspec, "world": world, "ops": ops}

	def _gen_scale(self, seed, S, mspec):
		"""One call at a scale the session legs never reach: more (example, shuffle)
		rows in one batch than any internal group size, or more examples than a
		16-bit index holds; sampled rows are compared with the example alone."""
		z = S("scale")
		L = mspec["L"]
		if z.chance(0.3):
			n = z.choice([32768, 32768, 65536]) + z.randint(2, 40)
			ns = 1
			shape = "many_examples"
			bs = z.choice([4096, 20000, n])
		else:
			n = z.randint(20, 90)
			ns = z.randint(12, 40)
			shape = "wide_batch"
			bs = z.choice([1025, 1500, 4096, n * ns, z.randint(1025, max(1026, n * ns))])
		world = {"n": n, "n_shuffles": ns, "refgen": "dinucleotide_shuffle",
			"xseed": z.subseed(), "random_state": z.randint(0, 1000),
			"target": z.randint(0, mspec["n_targets"] - 1)}
		k = min(n, 16)
		sample = sorted(set([0, 1, n - 1, n - 2] + [z.randint(0, n - 1) for _ in range(k)]
			+ ([32767, 32768, 32769] if n > 32769 else [])
			+ ([65535, 65536, 65537] if n > 65537 else [])))
		return {"leg": "scale", "seed": seed, "model": mspec, "world": world,
			"shape": shape, "batch_size": bs, "sample": [i for i in sample if 0 <= i < n],
			"refs": z.wchoice(["gen", "tensor"], [3, 1]),
			"mode": z.wchoice(["processed", "hypothetical", "raw"], [3, 2, 2]), "ops": []}

	def _run_scale(self, case):
		from engines import modelworld as mw
		out = core.Outcome()
		log = core.EventLog()
		mspec, world = case["model"], case["world"]
		log.log("case", mspec, world, case["shape"], case["batch_size"], case["sample"])
		dt = torch.float64
		n, ns, L = world["n"], world["n_shuffles"], mspec["L"]
		X = mw.gen_onehot(world["xseed"], n, L, dtype=dt)
		args = mw.make_args(mspec, n, dt) if mspec.get("n_args", 0) else None
		pristine = mw.build_model(mspec)
		mw.set_plan(mw.FaultPlan(None))
		mode = case["mode"]
		cond = _Conditioning()
		canon, canon_refs = {}, {}
		try:
			for i in case["sample"]:
				a_i = None if args is None else tuple(a[i:i + 1] for a in args)
				m_i = mw.clone_model(pristine)
				cond.observe(m_i)
				res = self._dls(m_i, X[i:i + 1], a_i, mode, world, batch_size=ns,
					return_references=True)
				canon[i], canon_refs[i] = res[0][0], res[1][0]
		except Exception as e:
			out.skipped = "canonical run raises %s: %s" % (type(e).__name__, str(e)[:60])
			out.digest = log.digest()
			return out
		if cond.reason:
			out.skipped = "ill-conditioned world: " + cond.reason
			out.digest = log.digest()
			return out
		out.bump("scale." + case["shape"])
		out.bump("scale.rows_in_one_call", n * ns)
		out.steps += 1
		desc = "deep_lift_shap over %d examples x %d shuffles, batch_size=%d, %s" % (n, ns,
			case["batch_size"], mode)
		key = {"shape": case["shape"]}
		refs = None
		if case["refs"] == "tensor":
			# a caller-owned reference tensor: the sampled rows get their canonical
			# references, every other row a shifted copy of its own sequence
			refs = torch.roll(X, 1, dims=-1)[:, None].repeat(1, ns, 1, 1).contiguous()
			for i in case["sample"]:
				refs[i] = canon_refs[i]
		try:
			res = self._dls(mw.clone_model(pristine), X, args, mode, world, refs=refs,
				batch_size=case["batch_size"], return_references=(refs is None))
		except Exception as e:
			out.violate("call_raised", "%s raised %s: %s although every sampled example "
				"alone succeeds" % (desc, type(e).__name__, str(e)[:200]), key=key)
			out.digest = log.digest()
			return out
		got_refs = None
		if refs is None:
			res, got_refs = res
		tol = 1e-9
		for i in case["sample"]:
			want = canon[i]
			scale = float(want.abs().max()) + 1e-30
			err = float((res[i].to(torch.float64) - want.to(torch.float64)).abs().max())
			log.log("row", i, res[i])
			if not (err <= tol * max(scale, 1.0)):
				out.violate("attribution_differs", "%s: example %d differs from the "
					"attribution of that example computed alone: max|d|=%.3g (row scale "
					"%.3g)" % (desc, i, err, scale), key=key)
				break
			if got_refs is not None and mw._tbytes(got_refs[i]) != mw._tbytes(canon_refs[i]):
				out.violate("references_differ", "%s: returned references of example %d "
					"differ from the references of that example alone" % (desc, i), key=key)
				break
		out.digest = log.digest()
		out.sample = {"leg": "scale", "seed": case.get("seed"), "n": n, "n_shuffles": ns,
			"L": L, "shape": case["shape"], "batch_size": case["batch_size"]}
		return out

	# -- execution -----------------------------------------------------------
	def _dls(self, model, X, args, op_or_mode, world, refs=None, batch_size=None,
		return_references=False, refgen=None, seed_type="int", extra_ops=None,
		verbose=False):
		from tangermeme.deep_lift_shap import deep_lift_shap
		mode = op_or_mode
		kw = dict(target=world["target"], batch_size=batch_size,
			n_shuffles=world["n_shuffles"], hypothetical=(mode == "hypothetical"),
			raw_outputs=(mode == "raw"), device="cpu",
			random_state=world["random_state"], warning_threshold=1e9,
			return_references=return_references)
		if refs is not None:
			kw["references"] = refs
			if world.get("xseed", 0) % 3 == 0:
				kw["n_shuffles"] = world["n_shuffles"] + 3     # ignored with a reference tensor
		elif refgen is not None:
			kw["references"] = refgen
		elif world.get("refgen", "dinucleotide_shuffle") != "dinucleotide_shuffle":
			kw["references"] = _refgen(world["refgen"])
		if seed_type != "int":
			kw["random_state"] = getattr(numpy, seed_type.split(".")[1])(
				world["random_state"])
		if extra_ops is not None:
			kw["additional_nonlinear_ops"] = extra_ops
		if verbose:
			kw["verbose"] = True
			kw["print_convergence_deltas"] = True
			import contextlib, io as _io
			with warnings.catch_warnings(), contextlib.redirect_stdout(_io.StringIO()), \
					contextlib.redirect_stderr(_io.StringIO()):
				warnings.simplefilter("ignore")
				return deep_lift_shap(model, X, args=args, **kw)
		with warnings.catch_warnings():
			warnings.simplefilter("ignore")
			return deep_lift_shap(model, X, args=args, **kw)

	def run_case(self, case):
		from engines import modelworld as mw, modelops as mo
		from tangermeme.ersatz import dinucleotide_shuffle
		import numba
		if case["leg"] == "scale":
			return self._run_scale(case)
		out = core.Outcome()
		log = core.EventLog()
		mspec, world = case["model"], case["world"]
		log.log("case", mspec, world)
		dt = torch.float64 if mspec.get("dtype", "float64") == "float64" else torch.float32
		tol = 1e-9 if dt == torch.float64 else 2e-4
		n, ns, L = world["n"], world["n_shuffles"], mspec["L"]
		X = mw.gen_onehot(world["xseed"], n, L, dtype=dt)
		args = None
		if mspec.get("n_args", 0):
			args = mw.make_args(mspec, n, dt)
		pristine = mw.build_model(mspec)
		mw.set_plan(mw.FaultPlan(None))
		def compute_canon(pristine_model):
			"""each example alone, one example per call, batch = n_shuffles"""
			canon_, canon_refs_ = {}, []
			cond_ = _Conditioning()
			for mode in ("processed", "hypothetical", "raw"):
				rows = []
				for i in range(n):
					a_i = None if args is None else tuple(a[i:i + 1] for a in args)
					m_i = mw.clone_model(pristine_model)
					if mode == "processed":
						cond_.observe(m_i)       # private clone: observation only
					res = self._dls(m_i, X[i:i + 1], a_i, mode, world,
						batch_size=ns, return_references=True)
					rows.append(res[0][0])
					if mode == "processed":
						canon_refs_.append(res[1][0])
				canon_[mode] = rows
			return canon_, canon_refs_, cond_
		try:
			canon, canon_refs, cond = compute_canon(pristine)
		except Exception as e:
			out.skipped = "canonical run raises %s: %s" % (type(e).__name__, str(e)[:60])
			out.digest = log.digest()
			return out
		if cond.reason:
			# the DeepLIFT rules are discontinuous at exact ties inside a max-pool
			# window and at the |delta_in| = 1e-6 / 1e-7 switch: there a last-bit
			# rounding difference between two batch shapes legitimately moves
			# attribution between positions.  Such worlds are outside what any
			# floating-point implementation can promise.
			out.skipped = "ill-conditioned world: " + cond.reason
			out.digest = log.digest()
			return out
		X0 = X.clone()
		world_refs = torch.stack(canon_refs)       # a reference tensor the caller owns
		world_refs0 = world_refs.clone()
		shared = mw.clone_model(pristine)
		pX = mw.gen_onehot(world["xseed"] + 17, 4, L, dtype=dt)
		pargs = () if args is None else mw.make_args(mspec, 4, dt, lo=-0.5, hi=1.0)
		nthreads0 = numba.get_num_threads()
		perturbed = False
		nontrivial = False
		kept = []
		try:
			for oi, op in enumerate(case["ops"]):
				kind = op["kind"]
				out.steps += 1
				out.bump("op." + kind)
				if kind == "np_seed":
					numpy.random.seed(op["v"]); perturbed = True
				elif kind == "np_draw":
					numpy.random.rand(3); perturbed = True
				elif kind == "torch_seed":
					torch.manual_seed(op["v"]); perturbed = True
				elif kind == "numba_threads":
					numba.set_num_threads(min(op["v"], numba.config.NUMBA_NUM_THREADS))
					perturbed = True
				elif kind == "train":
					shared.train(); perturbed = True
				elif kind == "predict":
					from tangermeme.predict import predict
					predict(shared, X, args=args, batch_size=2, device="cpu")
					perturbed = True
				elif kind == "ism":
					from tangermeme.ism import saturation_mutagenesis
					saturation_mutagenesis(shared, X[:1], args=None if args is None else
						tuple(a[:1] for a in args), start=0, end=3, device="cpu",
						target=world["target"])
					perturbed = True
				elif kind == "edit_model":
					# the user edits the architecture between two calls (a new
					# non-linearity in the head); the canonical results are recomputed
					# on an identically edited pristine copy
					def edit(m_):
						layers = list(m_.head)
						layers.insert(len(layers) - 1, torch.nn.Tanh())
						m_.head = torch.nn.Sequential(*layers)
					edit(shared)
					edit(pristine)
					try:
						canon, canon_refs, cond2 = compute_canon(pristine)
					except Exception:
						out.skipped = "canonical run raises after the edit"
						break
					if cond2.reason:
						out.skipped = "ill-conditioned world: " + cond2.reason
						break
					world_refs = torch.stack(canon_refs)
					world_refs0 = world_refs.clone()
					perturbed = True
				elif kind == "custom_ops":
					# a caller overriding the rule of every activation type for ONE call
					# (plain gradients); later calls must be unaffected by it
					passthrough = lambda module, grad_input, grad_output: grad_input
					types_ = set(type(m) for m in shared.modules()
						if type(m).__module__.startswith("torch.nn.modules.activation")
						or isinstance(m, torch.nn.MaxPool1d))
					try:
						self._dls(shared, X[:1], None if args is None else tuple(a[:1]
							for a in args), "processed", world, batch_size=ns,
							extra_ops={t: passthrough for t in types_})
					except Exception:
						pass
					perturbed = True
				elif kind == "fail":
					snap = mw.Snapshot(shared, pX, pargs)
					plan = mw.set_plan(mw.FaultPlan(op["fault"]))
					idx = op["idx"]
					try:
						self._dls(shared, X[idx], None if args is None else tuple(a[idx]
							for a in args), op["mode"], world, batch_size=op["batch_size"],
							refgen=mo._wrap("refgen", _refgen(world.get("refgen",
								"dinucleotide_shuffle"))))
					except BaseException as e:
						if isinstance(e, (SystemExit, GeneratorExit)):
							raise
					finally:
						plan.armed = False
						mw.set_plan(mw.FaultPlan(None))
					if plan.fired:
						out.bump("fault.fired." + op["fault"]["seam"])
						perturbed = True
					if snap.compare(shared):
						out.bump("aborted_c07_precondition")
						out.skipped = "aborted_c07_precondition"
						break
				else:
					idx = op["idx"]
					Xs = X[idx]
					if op.get("xview") == "strided":
						big = torch.zeros(Xs.shape[0], 4, L * 2, dtype=Xs.dtype)
						big[:, :, ::2] = Xs
						Xs = big[:, :, ::2]
					a_s = None if args is None else tuple(a[idx] for a in args)
					if a_s is not None and op.get("args_as") == "list":
						a_s = list(a_s)
					refs = None
					want_rows = None
					if op["refs"] == "tensor":
						if idx == list(range(n)):
							refs = world_refs                     # the caller's own object
							op_ret_refs = True
						else:
							refs = torch.stack([canon_refs[i] for i in idx])
							op_ret_refs = False
					elif op["refs"] == "tensor_mixed":
						# an explicit reference tensor in which some examples use an
						# all-zero baseline and the others their shuffles
						mixed, want_rows, bad_world = {}, {}, None
						for i in sorted(set(idx)):
							mixed[i] = torch.zeros_like(canon_refs[i]) if i % 2 == 0 else \
								canon_refs[i].clone()
							c2 = _Conditioning()
							m_i = mw.clone_model(pristine)
							c2.observe(m_i)
							a_i = None if args is None else tuple(a[i:i + 1] for a in args)
							try:
								want_rows[i] = self._dls(m_i, X[i:i + 1], a_i, op["mode"], world,
									refs=mixed[i][None], batch_size=ns)[0]
							except Exception:
								bad_world = "canonical run raises"
							if c2.reason:
								bad_world = c2.reason
						if bad_world:
							out.bump("op.skipped_ill_conditioned")
							continue
						refs = torch.stack([mixed[i] for i in idx])
						out.bump("probe.mixed_zero_baselines")
					elif op["refs"] == "tensor_tiny":
						# references a hair away from the input: |delta_in| of the rescale
						# rule lands in the 1e-6 .. 1e-4 range, close to its switch
						eps = op["tiny_eps"]
						tiny, want_rows, bad_world = {}, {}, None
						for i in sorted(set(idx)):
							g = torch.Generator().manual_seed(world["xseed"] % 100003 + 17 * i)
							tiny[i] = X[i][None] + eps * torch.randn(ns, 4, L, generator=g,
								dtype=dt)
							c2 = _Conditioning()
							m_i = mw.clone_model(pristine)
							c2.observe(m_i)
							a_i = None if args is None else tuple(a[i:i + 1] for a in args)
							try:
								want_rows[i] = self._dls(m_i, X[i:i + 1], a_i, op["mode"], world,
									refs=tiny[i][None], batch_size=ns)[0]
							except Exception:
								bad_world = "canonical run raises"
							if c2.reason:
								bad_world = c2.reason
						if bad_world:
							out.bump("op.skipped_ill_conditioned")
							continue
						refs = torch.stack([tiny[i] for i in idx])
						out.bump("probe.tiny_delta_references")
					bs = op["batch_size"]
					if perturbed:
						out.bump("probe.dls_after_perturbation")
						nontrivial = True
					if len(idx) > 1 and bs % ns != 0:
						out.bump("probe.batch_straddles_examples")
						nontrivial = True
					if bs < ns:
						out.bump("probe.batch_smaller_than_n_shuffles")
					if bs % ns == 0:
						out.bump("probe.batch_multiple_of_n_shuffles")
					if (len(idx) * ns) % bs != 0:
						out.bump("probe.last_batch_partial")
					if len(set(idx)) < len(idx):
						out.bump("probe.duplicate_example_in_call")
					box = {}

					def call():
						try:
							if op.get("thread"):
								repo.numba_seed(core.derive_seed(case.get("seed", 0), "thread", oi))
							if kind == "marg":
								from tangermeme.marginalize import marginalize
								from tangermeme.deep_lift_shap import deep_lift_shap
								with warnings.catch_warnings():
									warnings.simplefilter("ignore")
									from tangermeme import ersatz as _ers
									yb, ya = marginalize(shared, Xs, op["motif"], func=deep_lift_shap,
										args=a_s, additional_func_kwargs=dict(
										references=_refgen(world.get("refgen",
											"dinucleotide_shuffle")),
										target=world["target"], batch_size=bs, n_shuffles=ns,
										hypothetical=(op["mode"] == "hypothetical"), device="cpu",
										random_state=world["random_state"], warning_threshold=1e9))
								box["res"] = yb
							else:
								ret_refs = op["return_references"] or (op["refs"] == "tensor"
									and refs is world_refs)
								run = lambda: self._dls(shared, Xs, a_s, op["mode"], world,
									refs=refs, batch_size=bs,
									return_references=ret_refs,
									seed_type=op.get("seed_type", "int"),
									verbose=op.get("verbose", False))
								itf = op.get("interfere")
								if itf:
									from engines.preempt import run_with_interference

									def interfere(k):
										if itf["what"] == "np_draw":
											numpy.random.rand(3)
										elif itf["what"] == "np_seed":
											numpy.random.seed(k * 7919 % 100003)
										else:
											torch.manual_seed(k * 31)
									box["res"], npts, fired = run_with_interference(run, "tangermeme",
										itf["points"], interfere)
									box["fired"] = fired
								else:
									box["res"] = run()
						except BaseException as e:
							box["exc"] = e
					if op.get("thread"):
						t = threading.Thread(target=call)
						t.start(); t.join()
						out.bump("probe.call_from_other_thread")
					else:
						call()
					if box.get("fired"):
						out.bump("probe.interference_inside_call", len(box["fired"]))
					key = {"kind": kind, "mode": op["mode"], "refs": op["refs"]}
					desc = "op %d %s(idx=%r, batch_size=%d, n_shuffles=%d, mode=%s, refs=%s, " \
						"random_state as %s%s)" % (oi, kind, idx, bs, ns, op["mode"], op["refs"],
						op.get("seed_type", "int"), ", other thread" if op.get("thread") else "")
					if "exc" in box:
						e = box["exc"]
						if isinstance(e, (SystemExit, GeneratorExit)):
							raise e
						out.violate("call_raised", "%s raised %s: %s although every example "
							"alone succeeds" % (desc, type(e).__name__, str(e)[:200]), key=key)
						break
					res = box["res"]
					got_refs = None
					if isinstance(res, tuple):
						res, got_refs = res
					if got_refs is not None and refs is world_refs:
						# the caller post-processes what was returned; its own input
						# tensor must not change underneath it
						chk = got_refs.clone()
						got_refs.mul_(0.5)
						out.bump("probe.returned_references_modified_in_place")
						if mw._tbytes(world_refs) != mw._tbytes(world_refs0):
							out.violate("input_modified", "%s: modifying the returned references "
								"in place changed the caller's own reference tensor (the result "
								"aliases the input)" % desc, key={"kind": "alias"})
							break
						got_refs = chk
					log.log("dls", oi, idx, bs, op["mode"], mw._tbytes(res))
					kept.append((oi, res, mw._tbytes(res)))
					want_shape = (len(idx), ns, 4, L) if op["mode"] == "raw" else \
						(len(idx), 4, L)
					if tuple(res.shape) != want_shape:
						out.violate("shape", "%s returned shape %r, expected %r" % (desc,
							tuple(res.shape), want_shape), key=key)
						break
					bad = None
					for p, i in enumerate(idx):
						want = canon[op["mode"]][i] if want_rows is None else want_rows[i]
						scale = float(want.abs().max()) + 1e-30
						err = float((res[p].to(torch.float64) - want.to(torch.float64))
							.abs().max())
						if not (err <= tol * max(scale, 1.0)):
							bad = (p, i, err, scale)
							break
					if bad:
						out.violate("attribution_differs", "%s: row %d (example %d) differs "
							"from the attribution of that example computed alone: max|d|=%.3g "
							"(row scale %.3g)" % (desc, bad[0], bad[1], bad[2], bad[3]), key=key)
						break
					if got_refs is not None:
						if tuple(got_refs.shape) != (len(idx), ns, 4, L):
							out.violate("shape", "%s returned references of shape %r" % (desc,
								tuple(got_refs.shape)), key=key)
							break
						for p, i in enumerate(idx):
							if mw._tbytes(got_refs[p]) != mw._tbytes(canon_refs[i]):
								js = [j for j in range(ns) if mw._tbytes(got_refs[p][j]) !=
									mw._tbytes(canon_refs[i][j])]
								out.violate("references_differ", "%s: returned references of "
									"row %d (example %d) differ from the references of that "
									"example alone at shuffles %r" % (desc, p, i, js), key=key)
								break
						if out.violations:
							break
			for oi_, obj, b in kept:
				if mw._tbytes(obj) != b:
					out.violate("earlier_result_mutated", "the tensor returned by op %d was "
						"changed by a later call in the same session" % oi_, key={"kind": "mut"})
					break
			if mw._tbytes(X) != mw._tbytes(X0):
				out.violate("input_modified", "X was modified by the session",
					key={"kind": "X"})
		finally:
			numba.set_num_threads(nthreads0)
			mw.set_plan(mw.FaultPlan(None))
		out.nontrivial = nontrivial
		out.note("op_sequences", tuple(o["kind"] for o in case["ops"]))
		out.digest = log.digest()
		out.sample = {"leg": case["leg"], "seed": case.get("seed"), "n": n,
			"n_shuffles": ns, "L": L, "ops": [{k: v for k, v in o.items()}
			for o in case["ops"][:8]]}
		return out

	def minimise(self, case, klass, key):
		b = minimise.Budget(80)
		test = lambda c: self.still_fails(c, klass, None)
		case = copy.deepcopy(case)
		if case["leg"] == "scale":
			return case                  # one call; nothing to drop
		case = minimise.ddmin_list(case, ["ops"], test, b, min_len=1)
		return case

	def extra_coverage(self, agg, tier):
		return {"fault_kinds": ["global.np_seed", "global.np_draw", "global.torch_seed",
			"global.numba_threads", "global.model_train", "other API call on the shared "
			"model", "call from another thread", "exc.forward/backward/refgen in a "
			"preceding deep_lift_shap call (leg 'faulty')", "knob.batch_size"]}


CHECK = C06()
