"""C16 -- loaded loci, signals and motifs are exactly what the files contain.

Leg 'meme'  read_meme over simulated storage: the real TextIOWrapper /
            BufferedReader stack on a byte source with seeded short reads and a
            planned truncation (EOF) offset; seeded record layout (CRLF, trailing
            blanks, 0/1/3 blank lines between records, URL line, final newline,
            EOF right after the last matrix row).
Leg 'loci'  extract_loci on a generated genome with every input supplied through
            a seeded backend (FASTA file | dict of one-hot arrays; bigWig | dict of
            arrays; BED file | DataFrame); all backend combinations must give the
            tensors an independent slicing model predicts.
"""

import copy
import os

import numpy
import torch

from simkit import core, minimise, repo, runner
from engines import genome


def gen_probs(r, w):
	cols = []
	for _ in range(w):
		s = r.wchoice(["dirichlet", "grid", "sci", "coarse", "counts"], [4, 2, 1, 1, 1])
		if s == "dirichlet":
			g = [r._r.gammavariate(0.7, 1.0) + 1e-9 for _ in range(4)]
			t = sum(g)
			col = [x / t for x in g]
		elif s == "grid":
			cnt = [0, 0, 0, 0]
			for _ in range(20):
				cnt[r.randint(0, 3)] += 1
			col = [c / 20 for c in cnt]
		elif s == "coarse":
			col = r.choice([[0.33, 0.33, 0.33, 0.0], [0.97, 0.0, 0.0, 0.0], [0.3, 0.3, 0.3, 0.3],
				[0.25, 0.25, 0.25, 0.24], [0.5, 0.26, 0.13, 0.13]])
		elif s == "counts":
			col = [float(r.randint(0, 20)) for _ in range(4)]
		else:
			col = [1e-7, 2.5e-5, 0.5, 0.4999749]
		cols.append(col)
	return [[cols[j][i] for j in range(w)] for i in range(4)]


def track_array(v, a=None, b=None):
	"""float64 array (NaN = no data) of a track given per position or run-length
	encoded as {'length': L, 'rle': [[start, end, value], ...]}."""
	if isinstance(v, dict):
		a = 0 if a is None else max(0, a)
		b = v["length"] if b is None else min(v["length"], b)
		out = numpy.full(max(0, b - a), numpy.nan)
		for s_, e_, val in v["rle"]:
			lo, hi = max(s_, a), min(e_, b)
			if lo < hi:
				out[lo - a:hi - a] = numpy.nan if val is None else val
		return out
	seg = v[a:b] if (a is not None or b is not None) else v
	return numpy.array([numpy.nan if x is None else x for x in seg], dtype="float64")


WIDE_OFF = 1.0 / 3.0      # float64 value without a float32 representation


def track_plus_one(v):
	if isinstance(v, dict):
		return {"length": v["length"], "rle": [[s_, e_, None if val is None else val + 1.0]
			for s_, e_, val in v["rle"]]}
	return [None if x is None else x + 1.0 for x in v]


class C16(runner.Check):
	prop_id = "C16"
	level = "exploration"
	hang_s = 300
	rule = ("Leg 'meme': one evaluation = one generated MEME document (1-6 motifs, widths "
		"1-12, names with spaces) rendered with a seeded layout and read by read_meme "
		"through simulated storage (short reads of 1..64 bytes; in the fault-injecting "
		"configuration a truncation offset biased to record boundaries). Leg 'loci': one "
		"evaluation = one generated genome (2-4 chromosomes with lower-case and N runs, "
		"1-2 signal tracks, 0-1 input-signal track, 1-3 locus sets incl. loci at both "
		"chromosome edges, zero/odd-length peaks, foreign chromosomes) extracted with "
		"seeded windows / jitter / count filters / n_loci under 2-4 backend combinations. "
		"Non-trivial: at least one motif / kept locus expected; distinct = distinct "
		"event-log digests.")
	assumptions = [
		"a motif counts as 'in the file' when all of its matrix rows are present; under an "
		"injected truncation, the motif that contains the cut may be absent or the call may "
		"raise, but no motif with missing rows may be returned and complete motifs must be "
		"returned exactly",
		"motif names are compared after stripping surrounding whitespace",
		"loci whose window starts exactly at position 0, or whose actual (odd) window ends "
		"exactly at the chromosome end, are boundary cases the statement leaves open: either "
		"keeping or omitting them is accepted",
		"signal values are small integers / halves (float32-exact; in 12 % of the worlds, "
		"in-memory float64 tracks shifted by 1/3 so that no value is float32-exact) and count "
		"thresholds lie at quarter offsets, so sums and comparisons have no rounding ambiguity",
	]
	real_vs_stub = {
		"real": ["io.read_meme, io.extract_loci, _interleave_loci, _load_signals",
			"io.TextIOWrapper / io.BufferedReader", "pyfaidx, pyBigWig, pandas.read_csv on "
			"generated files"],
		"simulated": ["raw byte source behind `open` (short reads, truncation)",
			"storage backend choice per input"],
	}
	tiers = {
		"quick": {"legs": [("meme", 10000), ("meme_trunc", 5000), ("loci", 3000)],
			"wall_cap_s": 600, "chunk": 100},
		"thorough": {"legs": [("meme", 1500000), ("meme_trunc", 800000), ("loci", 400000)],
			"wall_cap_s": 5400, "chunk": 2000},
	}

	def prepare(self, tier, fresh=False):
		repo.setup()
		from tangermeme import io as tio
		self.tio = tio
		# compile the one-hot kernel before forking
		from tangermeme.utils import one_hot_encode
		one_hot_encode("ACGTN")

	# -- generation ----------------------------------------------------------
	def gen_case(self, leg, seed, tier):
		S = core.Streams(seed)
		r = S("workload")
		if leg in ("meme", "meme_trunc"):
			n = r.randint(1, 6)
			if leg == "meme" and r.chance(0.004):
				n = r.randint(2200, 3200)        # a whole motif collection (> 1 MiB)
			motifs = []
			for i in range(n):
				nm = "M%d" % i + r.choice(["", " alt%d" % i, " two words"])
				motifs.append({"name": nm, "pwm": gen_probs(r, r.randint(1, 12) if n < 100
					else r.randint(6, 10))})
			lo = {"newline": r.choice(["\n", "\n", "\r\n"]),
				"blank_after_matrix": r.choice([0, 1, 1, 3]),
				"url": r.chance(0.5),
				"trailing_blanks": r.choice(["", "", " ", "\t", "  "]),
				"final_newline": r.chance(0.7), "header": r.chance(0.8),
				"nsites": r.chance(0.6), "indent": r.choice(["", "", " ", "  "]),
				"blank_after_last": r.choice([None, None, 0]),
				"blank_after_motif_line": r.choice([0, 1, 1, 2]),
				"numfmt": r.wchoice(["repr", "e", "f6", "int"], [5, 1, 1, 1]),
				"log_odds_section": r.chance(0.15),
				"sep": r.choice([" ", " ", "  ", "\t"])}
			f = S("faults")
			io_plan = {"short_reads": f.chance(0.7), "max_read": f.choice([1, 3, 16, 64]),
				"seed": f.subseed(), "buffer": f.choice([8192, 16, 64])}
			case = {"leg": leg, "seed": seed, "motifs": motifs, "layout": lo,
				"io": io_plan, "n_motifs": r.choice([None, None, None, r.randint(1, n)])
					if n < 100 else None}
			if n >= 100:
				io_plan["short_reads"] = False
			if leg == "meme_trunc":
				case["trunc"] = {"kind": f.wchoice(["after_row", "after_row_nl", "line",
					"byte"], [4, 3, 3, 2]), "pick": f.random()}
			return case
		# loci world
		if r.chance(0.012):
			return self._gen_bigcov(r, S, seed)
		n_chr = r.randint(1, 4)
		chroms = []
		for i in range(n_chr):
			L = r.randint(50, 600)
			s = [r.choice("ACGT") for _ in range(L)]
			for _ in range(r.randint(0, 3)):
				p = r.randint(0, L - 1)
				q = min(L, p + r.randint(1, 15))
				mode = r.choice(["N", "lower", "lower"])
				for k in range(p, q):
					s[k] = "N" if mode == "N" else s[k].lower()
			# names with prefix collisions (chr1 / chr10 / chr1_alt) on purpose
			nm = ["chr1", "chr10", "chr1_alt", "chrUn_2"][i] if r.chance(0.5) else \
				"chr%s" % r.choice(["", "Un_"]) + str(i + 1)
			while nm in [c["name"] for c in chroms]:
				nm += "x"
			chroms.append({"name": nm, "seq": "".join(s)})
		neg = r.chance(0.2)
		bigc = r.chance(0.15)          # genome-scale coverage: cumulative counts > 2**24

		def track():
			t = {}
			for c in chroms:
				L = len(c["seq"])
				v = [float(r.choice([0, 0, 1, 2, 3, 0.5, 7] + ([-1, -2] if neg else [])))
					* (65536.0 if bigc else 1.0) for _ in range(L)]
				for _ in range(r.randint(0, 2)):
					p = r.randint(0, L - 1)
					for k in range(p, min(L, p + r.randint(1, 20))):
						v[k] = None
				t[c["name"]] = v
			return t
		signals = [track() for _ in range(r.randint(1, 2))] if r.chance(0.8) else None
		in_signals = [track()] if r.chance(0.35) else None
		in_w = r.choice([r.randint(1, 20), r.randint(2, 60)])
		out_w = r.choice([r.randint(1, 20), r.randint(2, 60)])
		jit = r.choice([0, 0, 1, 3, 8])
		half = max(in_w // 2, out_w // 2 if (signals or in_signals) else 0) + jit
		sets = []
		names = [c["name"] for c in chroms] + ["chrX_foreign"]
		for _ in range(r.randint(1, 3)):
			rows = []
			for _ in range(r.randint(1, 8)):
				c = r.choice(chroms)
				L = len(c["seq"])
				kind = r.wchoice(["inside", "left_edge", "right_edge", "zero_len", "far_out",
					"foreign"], [6, 3, 3, 1, 1, 1])
				if kind == "inside":
					mid = r.randint(0, L - 1)
				elif kind == "left_edge":
					mid = half + r.choice([-2, -1, 0, 1, 2])
				elif kind == "right_edge":
					mid = L - half + r.choice([-3, -2, -1, 0, 1, 2])
				elif kind == "zero_len":
					mid = r.randint(0, L - 1)
				else:
					mid = r.randint(0, L + 50)
				if kind == "zero_len":
					s_, e_ = mid, mid
				else:
					wdt = r.randint(0, 9)
					s_ = mid - wdt // 2
					e_ = s_ + wdt
				s_ = max(0, s_)
				e_ = max(s_, e_)
				name = "chrX_foreign" if kind == "foreign" else c["name"]
				rows.append([name, s_, e_])
				if r.chance(0.1):
					rows.append([name, s_, e_])           # the same locus twice
			sets.append(rows)
		use_chroms = None
		if r.chance(0.4):
			use_chroms = r.sample([c["name"] for c in chroms], r.randint(1, n_chr))
		else:
			# without a chroms filter a foreign chromosome is a KeyError by design
			for rows in sets:
				for row in rows:
					if row[0] == "chrX_foreign":
						row[0] = chroms[0]["name"]
		kw = {"in_window": in_w, "out_window": out_w, "max_jitter": jit,
			"chroms": use_chroms, "n_loci": r.choice([None, None, r.randint(1, 6)]),
			"min_counts": None, "max_counts": None, "target_idx": 0}
		if signals and r.chance(0.4):
			kw["min_counts"] = r.choice([0, 0, 0.25, 2.25, 10.25, 30.25])
		if signals and r.chance(0.3):
			kw["max_counts"] = r.choice([0, 0, 5.25, 20.25, 60.25, 200.25])
		if signals and len(signals) > 1:
			kw["target_idx"] = r.randint(0, len(signals) - 1)
		if bigc:
			for k_ in ("min_counts", "max_counts"):
				if kw[k_]:
					kw[k_] = kw[k_] * 65536.0
		b = S("schedule")
		combos = []
		for _ in range(r.randint(2, 4)):
			combos.append({"seq": b.choice(["fasta", "dict"]), "sig": b.choice(["bigwig",
				"dict"]), "insig": b.choice(["bigwig", "dict"]), "loci": [b.choice(["bed",
				"df"]) for _ in sets], "fasta_width": b.choice([7, 50, 60, 10000]),
				"extra_cols": b.chance(0.4), "chroms_as": b.choice(["list", "tuple"]),
				"verbose": b.chance(0.15), "bed_crlf": b.chance(0.2), "fa_desc": b.chance(0.3),
				"bed_trailing_blank": b.chance(0.2)})
		# in-memory tracks need not be float32: a "wide" world holds float64 values
		# that no float32 represents (every value + 1/3) and uses dict tracks only
		wide = bool((signals or in_signals) and S("wide").chance(0.12))
		if wide:
			for c_ in combos:
				c_["sig"] = c_["insig"] = "dict"
		return {"leg": "loci", "seed": seed, "chroms": chroms, "signals": signals,
			"in_signals": in_signals, "sets": sets, "kw": kw, "combos": combos,
			"wide": wide,
			"single_set_unwrapped": len(sets) == 1 and r.chance(0.5)}

	def _gen_bigcov(self, r, S, seed):
		"""One long chromosome with genome-scale coverage: the cumulative signal
		exceeds 2**24 (float32's integer range) long before its end, while every
		window sum stays small and exact.  Count thresholds sit exactly on the sum of
		one locus (a tie keeps the locus)."""
		L = r.randint(250000, 350000)
		rs = numpy.random.RandomState(r.subseed())
		seq = "".join(numpy.array(list("ACGT"))[rs.randint(0, 4, size=L)].tolist())
		cov = float(r.choice([64, 101, 127]))
		rle = [[0, L, cov]]
		for _ in range(r.randint(0, 5)):
			p = r.randint(0, L - 100)
			rle.append([p, p + r.randint(1, 80), cov + float(r.randint(1, 9))])
		signals = [{"chrBig": {"length": L, "rle": rle}}]
		in_w, out_w = r.randint(2, 40), r.randint(2, 60)
		rows = []
		for _ in range(r.randint(3, 8)):
			mid = r.randint(int(L * 0.6), L - 200)
			rows.append(["chrBig", mid - 2, mid + 3])
		kw = {"in_window": in_w, "out_window": out_w, "max_jitter": 0, "chroms": None,
			"n_loci": None, "min_counts": None, "max_counts": None, "target_idx": 0}
		# threshold exactly equal to the window sum of the first locus
		mid = rows[0][1] + (rows[0][2] - rows[0][1]) // 2
		a, b = mid - out_w // 2, mid + out_w // 2 + out_w % 2
		tot = float(numpy.nan_to_num(track_array(signals[0]["chrBig"], a, b)).sum())
		kw[r.choice(["min_counts", "max_counts"])] = tot
		b_ = S("schedule")
		combos = [{"seq": b_.choice(["fasta", "dict"]), "sig": "dict", "insig": "dict",
			"loci": ["df"], "fasta_width": 60, "extra_cols": False, "chroms_as": "list",
			"verbose": False}, {"seq": "dict", "sig": "bigwig", "insig": "dict",
			"loci": ["bed"], "fasta_width": 60, "extra_cols": False, "chroms_as": "list",
			"verbose": False}]
		return {"leg": "loci", "seed": seed, "chroms": [{"name": "chrBig", "seq": seq}],
			"signals": signals, "in_signals": None, "sets": [rows], "kw": kw,
			"combos": combos, "single_set_unwrapped": False, "bigcov": True}

	def run_case(self, case):
		if case["leg"] in ("meme", "meme_trunc"):
			return self._run_meme(case)
		return self._run_loci(case)

	# -- read_meme -------------------------------------------------------------
	def _row_offsets(self, case, text):
		"""For every motif: (offset right after the last char of its last matrix
		row, offset after that row's newline, offset of its MOTIF line)."""
		nl = case["layout"]["newline"]
		offs = []
		pos = 0
		lines = text.split(nl)
		starts = []
		for ln in lines:
			starts.append(pos)
			pos += len(ln) + len(nl)
		li = 0
		for m in case["motifs"]:
			while not lines[li].startswith("MOTIF " + m["name"]):
				li += 1
			mstart = starts[li]
			w = len(m["pwm"][0])
			while not lines[li + 1].startswith("letter-probability"):
				li += 1
			last = li + 1 + w
			end_chars = starts[last] + len(lines[last])
			offs.append((end_chars, min(len(text), end_chars + len(nl)), mstart))
			li = last
		return offs, starts, lines

	def _run_meme(self, case):
		from engines.iosim import SimFS, patched_open
		out = core.Outcome()
		log = core.EventLog()
		text = genome.meme_text([(m["name"], m["pwm"]) for m in case["motifs"]],
			case["layout"])
		data = text.encode("utf-8")
		offs, starts, lines = self._row_offsets(case, text)
		plan = dict(case["io"])
		cut = None
		mid_line = False
		if case["leg"] == "meme_trunc":
			tr = case["trunc"]
			pick = tr["pick"]
			if tr["kind"] == "after_row":
				cut = offs[int(pick * len(offs)) % len(offs)][0]
			elif tr["kind"] == "after_row_nl":
				cut = offs[int(pick * len(offs)) % len(offs)][1]
			elif tr["kind"] == "line":
				cut = starts[int(pick * len(starts)) % len(starts)]
			else:
				cut = int(pick * (len(data) + 1))
				mid_line = True
			plan["truncate_at"] = cut
			# classify: does the cut fall strictly inside some line's characters?
			mid_line = not any(cut == s or cut == s + len(l) or cut == min(len(text),
				s + len(l) + len(case["layout"]["newline"])) for s, l in zip(starts, lines))
		fs = SimFS()
		fs.add("sim.meme", data, plan)
		log.log("meme", text, plan, case["n_motifs"])
		status, res = "returned", None
		try:
			with patched_open(self.tio, fs):
				res = self.tio.read_meme("sim.meme", n_motifs=case["n_motifs"])
		except Exception as e:
			status = "raised:%s: %s" % (type(e).__name__, str(e)[:150])
		out.steps = 1 + fs.stats.get("io.shortread", 0)
		for k, v in fs.stats.items():
			out.bump(k, v)
		out.bump("layout.newline=%r" % case["layout"]["newline"])
		if case["layout"]["blank_after_matrix"] == 0 and not case["layout"]["url"]:
			out.bump("probe.next_MOTIF_line_right_after_matrix")
		if offs[-1][0] == len(text) or offs[-1][1] == len(text):
			out.bump("probe.file_ends_right_after_last_matrix_row")
		expected = case["motifs"]
		if cut is not None:
			complete = [m for m, o in zip(case["motifs"], offs) if o[0] <= cut]
			out.bump("fault.truncate." + case["trunc"]["kind"])
			if any(o[0] == cut or o[1] == cut for o in offs):
				out.bump("probe.truncation_exactly_after_a_last_row")
			if any(o[2] < cut < o[0] for o in offs):
				out.bump("probe.truncation_inside_a_motif_record")
			expected = complete
		if case["n_motifs"] is not None:
			expected = expected[:case["n_motifs"]]
		key_base = {"truncated": cut is not None}
		desc = "layout %r%s%s" % ({k: v for k, v in case["layout"].items()},
			", short reads" if plan.get("short_reads") else "",
			", truncated at byte %d of %d" % (cut, len(data)) if cut is not None else "")
		if status != "returned":
			if cut is not None and mid_line:
				out.bump("relaxed.raise_on_mid_line_truncation")
			else:
				out.violate("raised", "read_meme raised (%s) on a well-formed%s file; %s" % (
					status, " (cleanly truncated)" if cut is not None else "", desc),
					key=dict(key_base, kind="raised"))
		else:
			got = list(res.items())
			log.log("got", [(k, v.numpy()) for k, v in got])
			names_got = [k.strip() for k, _ in got]
			names_exp = [m["name"] for m in expected]
			# the motif that contains a mid-line cut may legitimately be there or not
			allowed_extra = None
			if cut is not None and mid_line:
				nxt = [m for m, o in zip(case["motifs"], offs) if o[0] > cut]
				if nxt and len(expected) < (case["n_motifs"] or 10 ** 9):
					allowed_extra = nxt[0]["name"]
			ok_names = names_got == names_exp or (allowed_extra is not None and
				names_got == names_exp + [allowed_extra])
			if not ok_names:
				missing = [n for n in names_exp if n not in names_got]
				last_missing = bool(missing) and missing == names_exp[-len(missing):]
				eof_after_matrix = (offs[-1][0] >= len(text) - len(case["layout"]["newline"])
					) if cut is None else any(o[0] == cut or o[1] == cut for o in offs)
				out.violate("motifs_missing" if missing else "motifs_unexpected",
					"read_meme returned motifs %r, the file contains (completely) %r; %s" % (
					names_got, names_exp, desc), key=dict(key_base,
					no_line_between_records=bool(case["layout"]["blank_after_matrix"] == 0
						and not case["layout"]["url"]),
					ends_after_matrix=bool(eof_after_matrix)))
			else:
				nf = case["layout"].get("numfmt", "repr")
				for (k, v), m in zip(got, expected):
					want = numpy.array([[float(genome.fmtnum(x, nf)) for x in row]
						for row in m["pwm"]], dtype="float64")
					a = v.numpy()
					if a.shape != want.shape or str(a.dtype) != "float64" or \
							a.tobytes() != want.tobytes():
						out.violate("values_differ", "motif %r: returned matrix (shape %r) "
							"is not bit-equal to the stated probabilities (shape %r); %s" % (k,
							a.shape, want.shape, desc), key=dict(key_base, kind="values"))
						break
		if status == "returned" and cut is None and not out.violations and expected:
			# history: another document, then the first one again; nothing read
			# earlier may be altered, nothing may be carried over
			before = [(k, v.numpy().copy()) for k, v in res.items()]
			other = [(m["name"], [[1.0 - x for x in row] for row in m["pwm"]][::-1])
				for m in case["motifs"][::-1]]
			fs.add("other.meme", genome.meme_text(other, case["layout"]).encode("utf-8"),
				dict(case["io"]))
			try:
				with patched_open(self.tio, fs):
					res2 = self.tio.read_meme("other.meme")
					res3 = self.tio.read_meme("sim.meme", n_motifs=case["n_motifs"])
				out.bump("probe.meme_read_again_after_other_file")
				if [k for k, _ in before] != list(res.keys()) or any(
						not numpy.array_equal(a, res[k].numpy()) for k, a in before):
					out.violate("earlier_result_mutated", "the dictionary returned by the "
						"first read_meme call was changed by later calls", key=dict(key_base,
						kind="mutated"))
				elif list(res3.keys()) != list(res.keys()) or any(res3[k].numpy().tobytes()
						!= res[k].numpy().tobytes() for k in res):
					out.violate("values_differ", "reading the same file again after another "
						"file gives a different result; %s" % desc, key=dict(key_base,
						kind="reread"))
				elif [k.strip() for k in res2] != [n for n, _ in other] or any(
						res2[k].numpy().tobytes() != numpy.array([[float(genome.fmtnum(x,
						case["layout"].get("numfmt", "repr"))) for x in row] for row in M],
						dtype="float64").tobytes()
						for k, (n, M) in zip(res2, other)):
					out.violate("values_differ", "a second file read in the same process is "
						"not returned exactly; %s" % desc, key=dict(key_base, kind="second"))
			except Exception as e:
				out.violate("raised", "second/third read_meme call raised %s: %s; %s" % (
					type(e).__name__, str(e)[:150], desc), key=dict(key_base, kind="raised2"))
		out.nontrivial = len(expected) > 0
		out.digest = log.digest()
		out.sample = {"leg": case["leg"], "seed": case.get("seed"), "n_motifs_in_file":
			len(case["motifs"]), "layout": case["layout"], "io": plan,
			"n_motifs_arg": case["n_motifs"]}
		return out

	# -- extract_loci ------------------------------------------------------------
	def _model(self, case):
		"""Independent slicing model. Returns list of candidates in interleaved
		order: dict(status 'definite'|'ambiguous', seq, sig, insig)."""
		kw = case["kw"]
		chrom = {c["name"]: c["seq"] for c in case["chroms"]}
		sets = []
		for rows in case["sets"]:
			if kw["chroms"] is not None:
				rows = [r for r in rows if r[0] in kw["chroms"]]
			sets.append(rows)
		order = []
		for i, rows in enumerate(sets):
			for j, row in enumerate(rows):
				order.append((j * len(sets) + i, row))
		order.sort(key=lambda t: t[0])
		in_w, out_w, jit = kw["in_window"], kw["out_window"], kw["max_jitter"]
		have_sig = case["signals"] is not None or case["in_signals"] is not None
		hw_in, hw_out = in_w // 2, (out_w // 2 if have_sig else 0)
		cands = []
		def arr(track, name, a, b):
			if case.get("wide"):
				return numpy.nan_to_num(track_array(track[name], a, b) + WIDE_OFF)
			return numpy.nan_to_num(track_array(track[name], a, b)).astype("float32")
		for _, (name, s, e) in order:
			seq = chrom[name]
			L = len(seq)
			mid = s + (e - s) // 2
			span_in = (mid - hw_in - jit, mid + hw_in + jit + in_w % 2)
			span_out = (mid - hw_out - jit, mid + hw_out + jit + out_w % 2)
			used = [span_in] + ([span_out] if case["signals"] is not None else [])
			lo = min(a for a, b in used)
			hi = max(b for a, b in used)
			if lo < 0 or hi > L:
				continue                     # cannot be represented: must be omitted
			lo_nom = mid - max(hw_in, hw_out) - jit
			hi_nom = mid + max(hw_in, hw_out) + jit
			status = "definite"
			if lo_nom <= 0 or hi_nom >= L or lo == 0 or hi == L:
				status = "ambiguous"         # window touches a chromosome end
			a, b = span_in
			c = {"status": status, "locus": (name, s, e),
				"seq": genome.onehot_np(seq[a:b])}
			if case["signals"] is not None:
				a2, b2 = span_out
				c["sig"] = numpy.stack([arr(t, name, a2, b2) for t in case["signals"]])
				tot = float(c["sig"][kw["target_idx"]].astype("float64").sum())
				if kw["min_counts"] is not None and tot < kw["min_counts"]:
					continue
				if kw["max_counts"] is not None and tot > kw["max_counts"]:
					continue
			if case["in_signals"] is not None:
				c["insig"] = numpy.stack([arr(t, name, a, b) for t in case["in_signals"]])
			cands.append(c)
		return [c for c in cands if c["status"] in ("definite", "ambiguous")]

	def _materialise(self, case, combo, tag):
		scratch = repo.scratch_dir()
		paths = []
		chroms = case["chroms"]
		sizes = [(c["name"], len(c["seq"])) for c in chroms]
		if combo["seq"] == "fasta":
			p = os.path.join(scratch, tag + ".fa")
			genome.write_fasta(p, [(c["name"], c["seq"]) for c in chroms],
				width=combo["fasta_width"], descriptions=bool(combo.get("fa_desc")))
			paths += [p, p + ".fai"]
			sequences = p
		else:
			sequences = {c["name"]: genome.onehot_np(c["seq"]) for c in chroms}
		def tracks(ts, kind, label):
			if ts is None:
				return None
			outl = []
			for ti, t in enumerate(ts):
				if case.get("wide"):
					arrs = {n: track_array(v) + WIDE_OFF for n, v in t.items()}
				else:
					arrs = {n: track_array(v).astype("float32") for n, v in t.items()}
				if kind == "bigwig":
					p = os.path.join(scratch, "%s.%s%d.bw" % (tag, label, ti))
					genome.write_bigwig(p, sizes, arrs)
					paths.append(p)
					outl.append(p)
				else:
					outl.append(arrs)
			return outl
		signals = tracks(case["signals"], combo["sig"], "s")
		in_signals = tracks(case["in_signals"], combo["insig"], "i")
		import pandas
		loci = []
		extra = combo.get("extra_cols")
		for i, rows in enumerate(case["sets"]):
			if combo["loci"][i] == "bed":
				p = os.path.join(scratch, "%s.l%d.bed" % (tag, i))
				if extra:
					with open(p, "w") as f:
						for k, (c_, s_, e_) in enumerate(rows):
							f.write("%s\t%d\t%d\tpeak%d\t%d\t+\n" % (c_, s_, e_, k, 100 + k))
				else:
					genome.write_bed(p, rows, newline="\r\n" if combo.get("bed_crlf") else "\n",
						trailing_blank=bool(combo.get("bed_trailing_blank")))
				paths.append(p)
				loci.append(p)
			else:
				df = pandas.DataFrame(rows, columns=["chrom", "start", "end"])
				if extra:
					# an extra column and a non-default index (column names stay the
					# documented chrom/start/end: the chroms filter addresses 'chrom' by name)
					df["name"] = ["p%d" % k for k in range(len(df))]
					df.index = [100 + 3 * k for k in range(len(df))][::-1]
				loci.append(df)
		if case.get("single_set_unwrapped") and len(loci) == 1:
			loci = loci[0]
		return loci, sequences, signals, in_signals, paths

	def _run_loci(self, case):
		out = core.Outcome()
		log = core.EventLog()
		log.log("world", case["chroms"], case["signals"], case["in_signals"],
			case["sets"], case["kw"])
		kw = case["kw"]
		cands = self._model(case)
		n_def = sum(1 for c in cands if c["status"] == "definite")
		if not cands:
			out.bump("world.no_locus_expected")
		out.bump("model.definite", n_def)
		out.bump("model.ambiguous_boundary", len(cands) - n_def)
		if case.get("wide"):
			out.bump("world.float64_dict_tracks_not_float32_exact")
		ran = 0
		for ci, combo in enumerate(case["combos"]):
			tag = "c16_%d_%d_%d" % (os.getpid(), case.get("seed", 0), ci)
			loci, sequences, signals, in_signals, paths = self._materialise(case, combo,
				tag)
			where = "backends seq=%s sig=%s insig=%s loci=%r" % (combo["seq"],
				combo["sig"] if signals else None, combo["insig"] if in_signals else None,
				combo["loci"])
			out.bump("backend.seq." + combo["seq"])
			if signals:
				out.bump("backend.sig." + combo["sig"])
			for b in combo["loci"]:
				out.bump("backend.loci." + b)
			try:
				try:
					chroms_arg = kw["chroms"]
					if chroms_arg is not None and combo.get("chroms_as") == "tuple":
						chroms_arg = tuple(chroms_arg)
					res = self.tio.extract_loci(loci, sequences, signals=signals,
						in_signals=in_signals, chroms=chroms_arg, in_window=kw["in_window"],
						out_window=kw["out_window"], max_jitter=kw["max_jitter"],
						min_counts=kw["min_counts"], max_counts=kw["max_counts"],
						target_idx=kw["target_idx"], n_loci=kw["n_loci"],
						verbose=bool(combo.get("verbose")))
				finally:
					for p in paths:
						try:
							os.remove(p)
						except OSError:
							pass
			except Exception as e:
				if n_def == 0 and isinstance(e, (ValueError, RuntimeError)):
					# numpy.stack of an empty list: nothing to return
					out.bump("declined.nothing_kept")
					continue
				out.violate("raised", "%s: extract_loci raised %s: %s (kw=%r)" % (where,
					type(e).__name__, str(e)[:200], kw), key={"exc": type(e).__name__})
				break
			ran += 1
			out.steps += 1
			parts = [res] if isinstance(res, torch.Tensor) else list(res)
			n_exp_parts = 1 + (signals is not None) + (in_signals is not None)
			if len(parts) != n_exp_parts:
				out.violate("shape", "%s: %d tensors returned, expected %d" % (where,
					len(parts), n_exp_parts), key="parts")
				break
			seqs = parts[0].numpy()
			sig = parts[1].numpy() if signals is not None else None
			insig = parts[-1].numpy() if in_signals is not None else None
			log.log("res", ci, seqs, sig, insig)
			msg = self._align(cands, seqs, sig, insig, kw)
			if msg:
				out.violate(msg[0], "%s, kw=%r: %s" % (where, kw, msg[1]), key=msg[0])
				break
		# history: the file at an already used bigWig path is replaced by one with
		# other content and read again in the same process
		first_bw = [i for i, c in enumerate(case["combos"]) if c["sig"] == "bigwig"]
		if case["signals"] is not None and first_bw and not out.violations and n_def > 0:
			ci = first_bw[0]
			combo = case["combos"][ci]
			case2 = copy.deepcopy(case)
			for t in case2["signals"]:
				for name in t:
					t[name] = track_plus_one(t[name])
			if case2["kw"]["min_counts"] is not None or case2["kw"]["max_counts"] is not None:
				case2["kw"]["min_counts"] = case2["kw"]["max_counts"] = None
			kw2 = case2["kw"]
			cands2 = self._model(case2)
			tag = "c16_%d_%d_%d" % (os.getpid(), case.get("seed", 0), ci)
			loci, sequences, signals, in_signals, paths = self._materialise(case2, combo, tag)
			try:
				try:
					res = self.tio.extract_loci(loci, sequences, signals=signals,
						in_signals=in_signals, chroms=kw2["chroms"], in_window=kw2["in_window"],
						out_window=kw2["out_window"], max_jitter=kw2["max_jitter"],
						target_idx=kw2["target_idx"], n_loci=kw2["n_loci"])
				finally:
					for p in paths:
						try:
							os.remove(p)
						except OSError:
							pass
				parts = [res] if isinstance(res, torch.Tensor) else list(res)
				msg = self._align(cands2, parts[0].numpy(), parts[1].numpy(),
					parts[-1].numpy() if in_signals is not None else None, kw2)
				out.bump("probe.same_bigwig_path_other_content")
				if msg:
					out.violate("stale_file_content", "second extract_loci call in the same "
						"process after the bigWig at the same path was replaced: %s" % msg[1],
						key="stale")
			except Exception as e:
				if any(c["status"] == "definite" for c in cands2):
					out.violate("raised", "second extract_loci call raised %s: %s" % (
						type(e).__name__, str(e)[:200]), key={"exc": type(e).__name__})
		first_fa = [i for i, c in enumerate(case["combos"]) if c["seq"] == "fasta"]
		if first_fa and not out.violations and n_def > 0:
			ci = first_fa[0]
			combo = dict(case["combos"][ci], fasta_width=case["combos"][ci]["fasta_width"] + 3)
			case3 = copy.deepcopy(case)
			for c in case3["chroms"]:
				c["seq"] = c["seq"][7:] + c["seq"][:3][::-1]      # other bases, other length
			case3["kw"]["min_counts"] = case3["kw"]["max_counts"] = None
			kw3 = case3["kw"]
			cands3 = self._model(case3)
			tag = "c16_%d_%d_fa" % (os.getpid(), case.get("seed", 0))
			scratch = repo.scratch_dir()
			fa = os.path.join(scratch, tag + ".fa")
			# first generation of the file + index, then the regenerated file
			genome.write_fasta(fa, [(c["name"], c["seq"]) for c in case["chroms"]],
				width=case["combos"][ci]["fasta_width"])
			import pyfaidx
			pyfaidx.Fasta(fa).close()
			genome.write_fasta(fa, [(c["name"], c["seq"]) for c in case3["chroms"]],
				width=combo["fasta_width"], keep_index=True)
			loci, sequences, signals, in_signals, paths = self._materialise(case3,
				dict(combo, seq="dict"), tag + "x")
			try:
				try:
					import warnings
					with warnings.catch_warnings():
						warnings.simplefilter("ignore")
						res = self.tio.extract_loci(loci, fa, signals=signals,
							in_signals=in_signals, chroms=kw3["chroms"],
							in_window=kw3["in_window"], out_window=kw3["out_window"],
							max_jitter=kw3["max_jitter"], target_idx=kw3["target_idx"],
							n_loci=kw3["n_loci"])
				finally:
					for p in paths + [fa, fa + ".fai"]:
						try:
							os.remove(p)
						except OSError:
							pass
				parts = [res] if isinstance(res, torch.Tensor) else list(res)
				msg = self._align(cands3, parts[0].numpy(),
					parts[1].numpy() if signals is not None else None,
					parts[-1].numpy() if in_signals is not None else None, kw3)
				out.bump("probe.regenerated_fasta_same_path")
				if msg:
					out.violate("stale_file_content", "extract_loci after the FASTA at the "
						"same path was regenerated (an older .fai lies next to it): %s" % msg[1],
						key="stale_fasta")
			except Exception as e:
				if any(c["status"] == "definite" for c in cands3):
					out.violate("raised", "extract_loci on a regenerated FASTA raised %s: %s"
						% (type(e).__name__, str(e)[:200]), key={"exc": type(e).__name__})
		out.nontrivial = n_def > 0 and ran > 0
		out.digest = log.digest()
		out.sample = {"leg": "loci", "seed": case.get("seed"), "chrom_lengths":
			[len(c["seq"]) for c in case["chroms"]], "sets": case["sets"], "kw": kw,
			"combos": case["combos"], "expected_definite": n_def}
		return out

	def _align(self, cands, seqs, sig, insig, kw):
		j = 0
		n = seqs.shape[0]
		def same(c, i):
			if seqs[i].shape != c["seq"].shape or not numpy.array_equal(seqs[i], c["seq"]):
				return "seq"
			if sig is not None and (sig[i].shape != c["sig"].shape or
					sig[i].astype("float64").tobytes() != c["sig"].astype("float64").tobytes()):
				return "signal"
			if insig is not None and (insig[i].shape != c["insig"].shape or
					insig[i].astype("float64").tobytes() != c["insig"].astype("float64").tobytes()):
				return "in_signal"
			return None
		# rows must equal, in order, a subsequence of the candidates that contains
		# every definite one (unless the n_loci cap cut the result short); boundary
		# (ambiguous) candidates may be present or absent.  Exact search with
		# memoisation -- a greedy walk is wrong when two windows happen to hold
		# the same bases.
		cap = kw["n_loci"] is not None and n == kw["n_loci"]
		memo = {}

		def ok(i, j):
			key = (i, j)
			if key in memo:
				return memo[key]
			if i == n:
				r = cap or not any(c["status"] == "definite" for c in cands[j:])
			elif j >= len(cands):
				r = False
			else:
				r = False
				if same(cands[j], i) is None and ok(i + 1, j + 1):
					r = True
				elif cands[j]["status"] == "ambiguous" and ok(i, j + 1):
					r = True
			memo[key] = r
			return r
		if ok(0, 0):
			return None
		# diagnostics: greedy walk to the first point of disagreement
		j = 0
		for i in range(n):
			while j < len(cands) and cands[j]["status"] == "ambiguous" and same(cands[j], i):
				j += 1
			if j >= len(cands):
				return ("unexpected_row", "row %d of the result corresponds to no remaining "
					"locus (result has %d rows)" % (i, n))
			why = same(cands[j], i)
			if why:
				c = cands[j]
				return ("row_wrong", "row %d should be locus %r (%s) but its %s differs: "
					"got %s..., expected %s..." % (i, c["locus"], c["status"], why,
					str(seqs[i].argmax(0)[:12].tolist()) if why == "seq" else
					str((sig if why == "signal" else insig)[i][0][:8].tolist()),
					str(c["seq"].argmax(0)[:12].tolist()) if why == "seq" else
					str((c["sig"] if why == "signal" else c["insig"])[0][:8].tolist())))
			j += 1
		rest = [c for c in cands[j:] if c["status"] == "definite"]
		if rest and not cap:
			return ("locus_missing", "locus %r lies completely inside its chromosome and "
				"passes the filters but is not in the result (%d rows returned)" % (
				rest[0]["locus"], n))
		return ("row_wrong", "the result rows are not an in-order selection of the loci "
			"that contains every locus lying inside its chromosome (%d rows)" % n)

	def minimise(self, case, klass, key):
		b = minimise.Budget(120)
		test = lambda c: self.still_fails(c, klass, None)
		case = copy.deepcopy(case)
		if case["leg"] == "loci":
			case = minimise.ddmin_list(case, ["combos"], test, b, min_len=1)
			for i in range(len(case["sets"])):
				case = minimise.ddmin_list(case, ["sets", i], test, b, min_len=1)
		else:
			def fix(c):
				if c["n_motifs"] is not None:
					c["n_motifs"] = max(1, min(c["n_motifs"], len(c["motifs"])))
				return c
			case = minimise.ddmin_list(case, ["motifs"], test, b, min_len=1, fix=fix)
			case = minimise.try_values(case, ["io"], [{"short_reads": False, "seed": 0,
				"buffer": 8192, "max_read": 64}], test, b)
			for k, v in (("newline", "\n"), ("trailing_blanks", ""), ("indent", ""),
					("header", False), ("nsites", False)):
				case = minimise.try_values(case, ["layout", k], [v], test, b)
		return case

	def extra_coverage(self, agg, tier):
		return {"fault_kinds": ["io.shortread", "io.truncate(after_row|after_row_nl|line|"
			"byte)", "io.layout.newline/blank lines/URL/trailing blanks/final newline/"
			"indent", "io.backend fasta|dict, bigwig|dict, bed|df", "buffer size"]}


CHECK = C16()
