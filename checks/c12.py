"""C12 -- FIMO reports exactly the windows above threshold, both strands, fields
correct, whatever the thread count, input backend, grouping or output mode.

Leg 'sim'   the prange loops of _all_pwm_to_mapping and _fast_hits run on K
            simulated threads (seeded distribution and interleaving); the real
            fimo() wrapper runs around them.  Results must equal the reference
            scanner and be bit-identical across schedules.
Leg 'real'  the shipped compiled binary at real thread counts / chunk sizes, with
            the same world supplied as FASTA + MEME files and as tensor + dict,
            dim=0 / dim=1, return_counts, reverse-complement metamorphic check.
"""

import copy
import math
import os

import numpy
import torch

from simkit import core, minimise, repo, runner
from engines import genome


def gen_pwm(r, w):
	cols = []
	for _ in range(w):
		s = r.wchoice(["dirichlet", "near", "zeros", "uniform"], [5, 3, 2, 1])
		if s == "dirichlet":
			a = r.choice([0.2, 0.5, 1.0, 3.0])
			g = [r._r.gammavariate(a, 1.0) + 1e-9 for _ in range(4)]
			t = sum(g)
			col = [x / t for x in g]
		elif s == "near":
			i = r.randint(0, 3)
			col = [0.01] * 4
			col[i] = 0.97
		elif s == "zeros":
			i, j = r.sample(range(4), 2)
			col = [0.0] * 4
			col[i] = r.choice([1.0, 0.75, 0.5])
			col[j] = 1.0 - col[i]
		else:
			col = [0.25] * 4
		cols.append(col)
	return [[cols[j][i] for j in range(w)] for i in range(4)]


def make_palindromic(pwm):
	"""pwm[::-1, ::-1] == pwm exactly (an E-box like motif)."""
	w = len(pwm[0])
	out = [row[:] for row in pwm]
	for j in range(w // 2):
		for i in range(4):
			out[3 - i][w - 1 - j] = pwm[i][j]
	if w % 2:
		mid = w // 2
		a, b = pwm[0][mid], pwm[1][mid]
		out[0][mid], out[3][mid] = a, a
		out[1][mid], out[2][mid] = b, b
		t = 2 * (a + b)
		for i in range(4):
			out[i][mid] = out[i][mid] / t if t > 0 else 0.25
	return out


def consensus(pwm):
	w = len(pwm[0])
	return "".join("ACGT"[max(range(4), key=lambda i: pwm[i][j])] for j in range(w))


def gen_world(r, leg):
	n_motifs = r.randint(1, 8 if leg == "real" else 4)
	maxw = 20 if leg == "real" else 10
	motifs = []
	for i in range(n_motifs):
		w = r.randint(2, maxw)
		pw = gen_pwm(r, w)
		if r.chance(0.12):
			pw = make_palindromic(pw)
		motifs.append({"name": "M%d_%s" % (i, r.choice(["x", "long name", "a"])),
			"pwm": pw})
	ws = [len(m["pwm"][0]) for m in motifs]
	n_seq = r.randint(1, 6 if leg == "real" else 3)
	equal = leg == "sim" or r.chance(0.6)
	if r.chance(0.08):
		# sequences exactly as long as the alphabet is large, motifs that fit
		for m in motifs:
			if len(m["pwm"][0]) > 4:
				w_ = r.randint(2, 4)
				m["pwm"] = [row[:w_] for row in m["pwm"]]
		ws = [len(m["pwm"][0]) for m in motifs]
		L0 = 4
		equal = True
	elif leg == "sim":
		L0 = r.randint(max(ws), max(ws) + 40)
	else:
		L0 = r.randint(max(2, min(ws) // 2), 200)
	seqs = []
	for si in range(n_seq):
		if equal:
			L = L0
		else:
			w0 = r.choice(ws)
			L = r.choice([max(1, w0 // 2), max(1, w0 - 1), w0, w0 + 1, r.randint(1, 200)])
		s = [r.choice("ACGT") for _ in range(L)]
		# plant motif instances at boundary offset classes, both strands
		for _ in range(r.randint(0, 4)):
			m = r.choice(motifs)
			c = consensus(m["pwm"])
			if r.chance(0.5):
				c = genome.revcomp(c)
			w = len(c)
			if w > L:
				continue
			off = r.choice([0, 1, L - w - 1, L - w, r.randint(0, L - w)])
			if 0 <= off <= L - w:
				s[off:off + w] = list(c)
		for _ in range(r.choice([0, 0, 1, 3])):
			p = r.randint(0, L - 1)
			for q in range(p, min(L, p + r.randint(1, 3))):
				s[q] = "N"
		if r.chance(0.1):
			# a run of unknown characters at least as long as the widest motif
			p = r.randint(0, max(0, L - 1))
			for q in range(p, min(L, p + max(ws) + r.randint(0, 2))):
				s[q] = "N"
		if r.chance(0.15):
			# unknown characters that are not 'N' (RNA / IUPAC codes, gaps)
			for _ in range(r.randint(1, 3)):
				s[r.randint(0, L - 1)] = r.choice("URYKM-")
		if r.chance(0.2):
			# unknown characters at the very start / end (hits may reach into them)
			for q in range(min(L, r.randint(1, 3))):
				s[q] = "N"
		if r.chance(0.2):
			for q in range(max(0, L - r.randint(1, 3)), L):
				s[q] = "N"
		seqs.append("".join(s))
	# a motif whose name is another motif's name plus '-rc' (legal; the scanner uses
	# that suffix internally for reverse complements)
	if len(motifs) >= 2 and r.chance(0.1):
		motifs[-1]["name"] = motifs[0]["name"] + "-rc"
	wmin = min(ws)
	if leg == "real" and not equal and n_seq >= 2 and r.chance(0.25):
		seqs[r.randint(0, n_seq - 2)] = ""           # a header without sequence lines
	cfg = {"threshold": r.choice([1e-1, 1e-2, 1e-3, 1e-4, 1e-5, 1e-6, 0.3,
			0.25, 0.0625, 4.0 ** -min(wmin, 8), 2.0 ** -r.randint(3, 12)]),
		"bin_size": r.choice([0.01, 0.05, 0.1, 0.1, 0.5, 1.0]),
		"eps": r.choice([1e-4, 1e-4, 1e-3]), "reverse_complement": r.chance(0.7)}
	if r.chance(0.1) and all(v > 0 for m in motifs for row in m["pwm"] for v in row):
		cfg["eps"] = 0.0          # legal as long as no probability is exactly zero
	if r.chance(0.06):
		for m in motifs:
			w_ = len(m["pwm"][0])
			cols = [r.shuffle([0.5, 0.25, 0.125, 0.125]) for _ in range(w_)]
			m["pwm"] = [[cols[j][i] for j in range(w_)] for i in range(4)]
		cfg["eps"] = 0.0
		cfg["bin_size"] = 1.0
	return {"motifs": motifs, "seqs": seqs, "cfg": cfg, "equal_length": equal}


class Oracle(object):
	"""Pure NumPy/Python reference scanner; tables and thresholds from the
	implementation's own sequential _pwm_to_mapping (C11 is not claimed)."""

	def __init__(self, fimo_mod, world):
		self.world = world
		cfg = world["cfg"]
		self.cfg = cfg
		self.names = [m["name"] for m in world["motifs"]]
		self.tables = []
		self.seq_idx = []
		for s in world["seqs"]:
			a = numpy.full(len(s), -1, dtype="int64")
			for j, c in enumerate(s.upper()):
				k = "ACGT".find(c)
				a[j] = k
			self.seq_idx.append(a)
		log_thr = math.log2(cfg["threshold"])
		for m in world["motifs"]:
			P = numpy.array(m["pwm"], dtype="float64")
			for strand, PP in (("+", P), ("-", P[::-1, ::-1])):
				if strand == "-" and not cfg["reverse_complement"]:
					continue
				lp = numpy.log2(PP + cfg["eps"]) - math.log2(0.25)
				smallest, table = fimo_mod._pwm_to_mapping(numpy.ascontiguousarray(lp),
					cfg["bin_size"])
				idx = numpy.where(table < log_thr)[0]
				thr = float(numpy.float32((idx[0] + smallest) * cfg["bin_size"])) \
					if len(idx) else float("inf")
				self.tables.append({"motif": len(self.tables) // (2 if cfg["reverse_complement"] else 1),
					"strand": strand, "lp": lp, "smallest": int(smallest),
					"table": table, "thr": thr, "w": P.shape[1]})

	def band(self, thr):
		return 1e-5 * abs(thr) + 1e-6

	def window_scores(self, t, si):
		a = self.seq_idx[si]
		w, L = t["w"], len(a)
		if L < w:
			return numpy.zeros(0)
		win = numpy.lib.stride_tricks.sliding_window_view(a, w)      # (L-w+1, w)
		vals = t["lp"][numpy.clip(win, 0, 3), numpy.arange(w)[None, :]]
		vals = numpy.where(win < 0, 0.0, vals)
		return vals.sum(axis=1)

	def expected(self):
		"""definite: {(motif, seq, start, strand): score}; optional: same for
		windows inside the ambiguity band.  The band is for scores that are sums of
		inexact terms; where every term is an exactly representable integer (dyadic
		PWM with eps = 0) or the window holds unknown characters only (score exactly
		0), `score > threshold` is decided exactly and nothing is optional."""
		definite, optional = {}, {}
		for t in self.tables:
			if t["thr"] == float("inf"):
				continue
			b = self.band(t["thr"])
			exact_lp = bool(numpy.all(numpy.isfinite(t["lp"])) and
				numpy.all(t["lp"] == numpy.round(t["lp"])))
			for si in range(len(self.seq_idx)):
				sc = self.window_scores(t, si)
				a = self.seq_idx[si]
				w = t["w"]
				for i in numpy.nonzero(sc > t["thr"] - b)[0]:
					key = (t["motif"], si, int(i), t["strand"])
					exact = exact_lp or bool(numpy.all(a[i:i + w] < 0))
					if exact:
						if sc[i] > t["thr"]:
							definite[key] = float(sc[i])
						continue
					if sc[i] > t["thr"] + b:
						definite[key] = float(sc[i])
					else:
						optional[key] = float(sc[i])
		return definite, optional

	def table_for(self, motif, strand):
		for t in self.tables:
			if t["motif"] == motif and t["strand"] == strand:
				return t
		return None


def hits_to_set(dfs, names=None):
	"""dim=0 result -> {(motif_idx, seq, start, strand): (end, score, p, motif_name)}"""
	out = {}
	dup = None
	for df in dfs:
		for row in df.itertuples(index=False):
			seq = row[2]
			if names is not None:
				seq = names.index(seq)
			key = (int(row[1]), int(seq), int(row[3]), row[5])
			if key in out:
				dup = key
			pv = float(row[7])
			out[key] = (int(row[4]), float(row[6]), "nan" if pv != pv else pv, str(row[0]))
	return out, dup


class C12(runner.Check):
	prop_id = "C12"
	level = "exploration"
	hang_s = 400
	isolate_cases = True      # fimo keeps no state between calls; a mutant might
	rule = ("One evaluation = one generated world (1-8 motifs of width 2-20 with Dirichlet / "
		"near-one-hot / exact-zero / uniform columns; 1-6 sequences incl. shorter than, "
		"equal to and one longer than a motif, N characters, lower case in FASTA; motif "
		"instances planted at offsets 0, 1, L-w-1, L-w and random on both strands; seeded "
		"threshold, bin size, eps, reverse_complement) scanned (leg 'sim') under 2-3 "
		"simulated thread schedules (K, work distribution, interleaving) or (leg 'real') "
		"by the compiled binary at several real thread counts x chunk sizes, as FASTA+MEME "
		"files (a quarter of them written in another, RC-symmetric alphabet order passed as "
		"`alphabet`) and as tensor+dict, dim 0/1, return_counts, and on the reverse-complemented "
		"sequences. Each result is compared with the reference scanner (set of windows, "
		"fields, p-values) and with the other executions. Non-trivial: the expected hit "
		"set is non-empty; distinct = distinct event-log digests.")
	assumptions = [
		"score -> p-value tables and `smallest` come from the implementation's own "
		"sequential _pwm_to_mapping (C11, their exactness, is not claimed); a hit whose "
		"table entry is NaN is compared NaN-aware and counted as a probe",
		"windows whose exact score lies within 1e-5*|thr|+1e-6 of the float32 threshold may "
		"be reported or not (float32 rounding of the threshold, fastmath re-association)",
		"sim leg: pre-emption points are the statements of the prange bodies down to the "
		"per-sequence loop; NumPy scalar arithmetic stands in for numba's typed arithmetic, "
		"so the sim leg only uses sequences at least as long as the widest motif",
		"real leg: the OpenMP schedule is not controlled (corroboration)",
	]
	real_vs_stub = {
		"real": ["fimo() wrapper", "read_meme, pyfaidx on generated files", "compiled "
			"_pwm_to_mapping", "compiled parallel _fast_hits/_all_pwm_to_mapping (leg real)",
			"source of _fast_hits/_all_pwm_to_mapping interpreted (leg sim)"],
		"simulated": ["numba work-sharing runtime in leg sim"],
	}
	tiers = {
		"quick": {"legs": [("sim", 320), ("real", 800)], "wall_cap_s": 900,
			"fresh_procs": 6, "chunk": 5},
		"thorough": {"legs": [("sim", 12000), ("real", 80000)], "wall_cap_s": 5400,
			"fresh_procs": 12, "chunk": 20},
	}

	def prepare(self, tier, fresh=False):
		repo.setup()
		from tangermeme.tools import fimo as fm
		from engines.threads import Steppable
		self.fm = fm
		self._orig = (fm._fast_hits, fm._all_pwm_to_mapping)
		try:
			self._st_hits = Steppable(fm._fast_hits, depth=2)
			self._st_map = Steppable(fm._all_pwm_to_mapping, depth=1)
			self._st_err = None
		except Exception as e:
			self._st_hits = self._st_map = None
			self._st_err = repr(e)
		# compile the sequential table kernel before forking
		fm._pwm_to_mapping(numpy.log2(numpy.full((4, 3), 0.25) + 1e-4) + 2.0, 0.1)
		lp = numpy.log2(numpy.full((4, 6), 0.25) + 1e-4) + 2.0
		fm._pwm_to_mapping(lp[:, 1:4], 0.1)

	def leg_mode(self, leg):
		return "fresh" if leg == "real" else "fork"

	def fresh_env(self, tier):
		return {"NUMBA_NUM_THREADS": "16", "OMP_WAIT_POLICY": "PASSIVE",
			"GOMP_SPINCOUNT": "0"}

	def gen_case(self, leg, seed, tier):
		S = core.Streams(seed)
		r = S("workload")
		world = gen_world(r, leg)
		case = {"leg": leg, "seed": seed, "world": world}
		# a second scan in the same process: same motif names and widths, other
		# probabilities and/or pseudocount (nothing may be carried over)
		if r.chance(0.6):
			w2 = copy.deepcopy(world)
			mode = r.choice(["pwm", "eps", "both", "seqs", "seqs"]) if leg == "real" else \
				r.choice(["pwm", "eps", "both"])
			if mode == "seqs":
				# the FASTA at the same path is regenerated (stale .fai next to it)
				new = []
				for s_ in reversed(w2["seqs"]):
					cut = r.randint(0, min(5, max(0, len(s_) - 1)))
					new.append(s_[cut:] + "".join(r.choice("ACGT") for _ in range(r.randint(0, 9))))
				w2["seqs"] = new
				w2["regenerated_fasta"] = True
			if mode in ("pwm", "both"):
				for m in w2["motifs"]:
					m["pwm"] = gen_pwm(r, len(m["pwm"][0]))
			if mode in ("eps", "both"):
				w2["cfg"]["eps"] = 1e-2 if world["cfg"]["eps"] != 1e-2 else 1e-4
			if w2["cfg"]["eps"] == 0 and any(v <= 0 for m in w2["motifs"] for row in m["pwm"]
					for v in row):
				w2["cfg"]["eps"] = 1e-4          # eps = 0 is only legal without exact zeros
			case["world2"] = w2
		s = S("schedule")
		if leg == "sim":
			plans = []
			n_it = len(world["motifs"]) * (2 if world["cfg"]["reverse_complement"] else 1)
			for _ in range(r.randint(2, 3)):
				K = s.wchoice([1, 2, 3, 4, 8, 16], [1, 3, 3, 2, 1, 1])
				kind = s.wchoice(["static_block", "cyclic", "dynamic", "one"], [3, 3, 4, 1])
				dist = {"kind": kind}
				if kind in ("cyclic", "dynamic"):
					dist["chunk"] = s.choice([1, 1, 2])
				if kind == "one":
					dist["tid"] = s.randint(0, K - 1)
				plans.append({"K": K, "dist": dist, "sched": {"seed": s.subseed(),
					"stick": s.choice([0.0, 0.3, 0.8])}, "alloc": {"default": s.choice(
					["zero", "nan", "huge"])}})
			case["plans"] = plans
			case["dim1"] = r.chance(0.5)
			case["xkind"] = r.wchoice(["float32", "int8", "float64", "numpy", "strided"],
				[4, 2, 1, 1, 1])
		else:
			case["n_jobs"] = [1] + s.sample([2, 3, 5, 8, 16], 2)
			case["chunks"] = [0, s.choice([1, 2])]
			case["fasta"] = {"width": r.choice([7, 60, 1000]), "lower": r.chance(0.4),
				"desc": r.chance(0.3)}
			a_ = S("alphabet")
			if a_.chance(0.25):
				# the caller's matrices list the bases in another (reverse-complement
				# symmetric) order: the same world written with other letters
				case["fasta"]["alphabet"] = a_.choice(["TGCA", "CATG", "GTAC", "AGCT",
					"CTAG", "GATC", "TCGA"])
			case["xkind"] = r.wchoice(["float32", "int8", "float64", "numpy", "strided"],
				[4, 2, 1, 1, 1])
		return case

	# -- helpers ---------------------------------------------------------------
	def _tensor(self, seqs, kind="float32"):
		X = numpy.stack([genome.onehot_np(s, dtype="float32") for s in seqs])
		if kind == "int8":
			return torch.from_numpy(X.astype("int8"))
		if kind == "float64":
			return torch.from_numpy(X.astype("float64"))
		if kind == "numpy":
			return X
		if kind == "strided":
			big = torch.zeros(X.shape[0], 4, X.shape[2] * 2)
			big[:, :, ::2] = torch.from_numpy(X)
			return big[:, :, ::2]
		return torch.from_numpy(X)

	def _motif_dict(self, world):
		return {m["name"]: torch.tensor(m["pwm"], dtype=torch.float64)
			for m in world["motifs"]}

	def _compare_with_oracle(self, out, oracle, got, where, seq_lens):
		"""got: {(motif, seq, start, strand): (end, score, p, name)}"""
		definite, optional = oracle.expected()
		for key in got:
			if key not in definite and key not in optional:
				t = oracle.table_for(key[0], key[3])
				out.violate("spurious_hit", "%s: reported hit motif=%d seq=%d start=%d "
					"strand=%s (score %.6g) is not a window whose score exceeds the "
					"threshold %.6g" % (where, key[0], key[1], key[2], key[3], got[key][1],
					t["thr"] if t else float("nan")), key="spurious")
				return
		for key, sc in definite.items():
			if key not in got:
				t = oracle.table_for(key[0], key[3])
				L = seq_lens[key[1]]
				last = key[2] == L - t["w"]
				out.violate("missing_hit", "%s: window motif=%d (w=%d) seq=%d (L=%d) "
					"start=%d strand=%s has score %.6g > threshold %.6g but is not reported%s"
					% (where, key[0], t["w"], key[1], L, key[2], key[3], sc, t["thr"],
					" [it is the LAST window of the sequence, start == L-w]" if last else ""),
					key={"last_window": bool(last)})
				return
		thr_p = oracle.cfg["threshold"]
		for key, (end, score, p, name) in got.items():
			p = float(p)
			t = oracle.table_for(key[0], key[3])
			want = definite.get(key, optional.get(key))
			msg = None
			if end != key[2] + t["w"]:
				msg = "end %d != start+w %d" % (end, key[2] + t["w"])
			elif name != oracle.names[key[0]]:
				msg = "motif_name %r != %r" % (name, oracle.names[key[0]])
			elif not (abs(score - want) <= 1e-9 * max(1.0, abs(want))):
				msg = "score %.12g, reference %.12g" % (score, want)
			else:
				q = want / oracle.cfg["bin_size"]
				b0 = int(q) - t["smallest"]
				cands = [b0]
				if abs(q - round(q)) < 1e-7 * max(1.0, abs(q)):
					cands = [b0 - 1, b0, b0 + 1]       # score on a bin boundary
				cands = [b for b in cands if 0 <= b < len(t["table"])]
				vals = [2.0 ** t["table"][b] for b in cands]
				if numpy.isnan(p):
					msg = "p-value is NaN (table entries of its score bin: %r), so it is " \
						"not below the threshold %.6g" % (vals, thr_p)
				elif not any(abs(p - v) <= 1e-12 * max(abs(v), 1e-300) for v in vals):
					msg = "p-value %.17g is not the table entry of its score bin (%r)" % (
						p, vals)
				elif not (p < thr_p) and key in definite and \
						abs(want - t["thr"]) > 2 * oracle.band(t["thr"]) + oracle.cfg["bin_size"] * 1e-9:
					# one bin below idx0 is possible only inside the band
					msg = "p-value %.6g is not below the threshold %.6g" % (p, thr_p)
			if msg:
				out.violate("field_wrong", "%s: hit motif=%d seq=%d start=%d strand=%s: %s"
					% (where, key[0], key[1], key[2], key[3], msg),
					key="nan_p_value" if "NaN" in msg else "field")
				return
		out.bump("oracle.hits_checked", len(got))

	# -- sim leg ---------------------------------------------------------------
	def _sim_fimo(self, plan, **kw):
		from engines.threads import ThreadSim
		sim = ThreadSim(plan, max_steps=400000)
		self.fm._fast_hits = self._st_hits.bind(sim)
		self.fm._all_pwm_to_mapping = self._st_map.bind(sim)
		try:
			with numpy.errstate(all="ignore"):
				res = self.fm.fimo(**kw)
		finally:
			self.fm._fast_hits, self.fm._all_pwm_to_mapping = self._orig
		return sim, res

	def run_case(self, case):
		if case["leg"] == "sim":
			return self._run_sim(case)
		return self._run_real(case)

	def _run_sim(self, case):
		from engines.threads import SimAbort
		out = core.Outcome()
		log = core.EventLog()
		world = case["world"]
		log.log("world", world)
		if self._st_hits is None:
			out.skipped = "prange source shape not recognised: %s" % self._st_err
			out.digest = log.digest()
			return out
		oracle = Oracle(self.fm, world)
		X = self._tensor(world["seqs"], case.get("xkind", "float32"))
		md = self._motif_dict(world)
		cfg = world["cfg"]
		seq_lens = [len(s) for s in world["seqs"]]
		first = None
		for pi, plan in enumerate(case["plans"]):
			where = "sim plan %d (K=%d, %s)" % (pi, plan["K"], plan["dist"]["kind"])
			try:
				sim, res = self._sim_fimo(plan, motifs=md, sequences=X, **cfg)
			except SimAbort as e:
				out.skipped = "sim step cap"
				break
			except Exception as e:
				out.violate("raised", "%s: fimo raised %s: %s" % (where, type(e).__name__,
					str(e)[:200]), key=type(e).__name__)
				break
			out.steps += sim.steps
			out.bump("sim.calls")
			out.bump("threads.K=%d" % plan["K"])
			out.bump("dist." + plan["dist"]["kind"])
			out.note("interleavings", core.digest_of(sim.trace))
			got, dup = hits_to_set(res)
			log.log("plan", pi, sim.picks, sorted(got.items()))
			if dup:
				out.violate("duplicate_hit", "%s: hit %r reported twice" % (where, dup),
					key="dup")
				break
			self._compare_with_oracle(out, oracle, got, where, seq_lens)
			if out.violations:
				break
			if first is None:
				first = got
			elif got != first:
				out.violate("schedule_dependent", "%s: hit set differs from the hit set "
					"under plan 0" % where, key="schedule")
				break
			if pi == 0:
				# output modes on the same schedule
				try:
					sim2, counts = self._sim_fimo(plan, motifs=md, sequences=X,
						return_counts=True, **cfg)
					want = [0] * len(world["motifs"])
					for k in got:
						want[k[0]] += 1
					if list(map(int, counts)) != want:
						out.violate("counts_differ", "%s: return_counts gives %r, the hit "
							"DataFrames contain %r" % (where, list(map(int, counts)), want),
							key="counts")
						break
					if case.get("dim1"):
						sim3, res1 = self._sim_fimo(plan, motifs=md, sequences=X, dim=1, **cfg)
						if not self._check_dim1(out, res1, got, where, None):
							break
				except SimAbort:
					out.skipped = "sim step cap"
					break
				except Exception as e:
					out.violate("raised", "%s: fimo(return_counts / dim=1, "
						"reverse_complement=%s) raised %s: %s" % (where,
						cfg["reverse_complement"], type(e).__name__, str(e)[:200]),
						key={"exc": type(e).__name__, "rc": cfg["reverse_complement"]})
					break
		if case.get("world2") and not out.violations and not out.skipped:
			w2 = case["world2"]
			plan = case["plans"][0]
			try:
				sim, res = self._sim_fimo(plan, motifs=self._motif_dict(w2), sequences=X,
					**w2["cfg"])
				got2, dup = hits_to_set(res)
				log.log("second", sorted(got2.items()))
				out.bump("probe.second_scan_same_names_other_values")
				self._compare_with_oracle(out, Oracle(self.fm, w2), got2, "second scan in "
					"the same process (same motif names/widths, other probabilities/eps)",
					seq_lens)
			except SimAbort:
				pass
			except Exception as e:
				out.violate("raised", "second scan raised %s: %s" % (type(e).__name__,
					str(e)[:200]), key=type(e).__name__)
		out.nontrivial = bool(first)
		out.digest = log.digest()
		out.sample = {"leg": "sim", "seed": case.get("seed"), "motif_widths":
			[len(m["pwm"][0]) for m in world["motifs"]], "seq_lengths": seq_lens,
			"cfg": cfg, "plans": [{"K": p["K"], "dist": p["dist"]} for p in case["plans"]],
			"n_hits": len(first or {})}
		return out

	def _check_dim1(self, out, res1, got, where, names):
		got1 = {}
		for df in res1:
			seqs_in = set(df["sequence_name"].tolist())
			if len(seqs_in) != 1:
				out.violate("dim1_wrong", "%s: a dim=1 frame mixes sequences %r" % (where,
					sorted(seqs_in)), key="dim1")
				return False
			g, dup = hits_to_set([df], names)
			for k in g:
				if k in got1:
					dup = k
			got1.update(g)
			if dup:
				out.violate("dim1_wrong", "%s: dim=1 reports %r twice" % (where, dup),
					key="dim1")
				return False
		if got1 != got:
			out.violate("dim1_wrong", "%s: dim=1 describes a different hit set than dim=0 "
				"(%d vs %d hits)" % (where, len(got1), len(got)), key="dim1")
			return False
		return True

	# -- real leg ----------------------------------------------------------------
	def _run_real(self, case):
		import numba
		out = core.Outcome()
		log = core.EventLog()
		world = case["world"]
		cfg = world["cfg"]
		log.log("world", world)
		oracle = Oracle(self.fm, world)
		seq_lens = [len(s) for s in world["seqs"]]
		md = self._motif_dict(world)
		scratch = repo.scratch_dir()
		tag = "c12_%d_%d" % (os.getpid(), case.get("seed", 0))
		fa = os.path.join(scratch, tag + ".fa")
		mm = os.path.join(scratch, tag + ".meme")
		pool = ["chr10", "chr2", "chr1", "chrX", "seqB", "seqA", "chr21", "chr3"]
		names = pool[:len(world["seqs"])] if case["fasta"].get("unsorted_names", True) \
			else ["chr%d" % i for i in range(len(world["seqs"]))]
		alpha = case["fasta"].get("alphabet")
		akw = {"alphabet": list(alpha)} if alpha else {}
		tr = (lambda s_: s_.translate(str.maketrans("ACGT", alpha))) if alpha else \
			(lambda s_: s_)
		if alpha:
			out.bump("real.fasta_with_non_default_alphabet")
		seqs_file = [tr(s).lower() if (case["fasta"]["lower"] and i % 2 == 0) else tr(s)
			for i, s in enumerate(world["seqs"])]
		genome.write_fasta(fa, list(zip(names, seqs_file)), width=case["fasta"]["width"],
			descriptions=bool(case["fasta"].get("desc")))
		genome.write_meme(mm, [(m["name"], m["pwm"]) for m in world["motifs"]])
		nthreads0 = numba.get_num_threads()
		first = None
		try:
			for nj in case["n_jobs"]:
				if nj > numba.config.NUMBA_NUM_THREADS:
					continue
				for ch in case["chunks"]:
					numba.set_num_threads(nj)
					numba.set_parallel_chunksize(ch)
					where = "compiled fimo (threads=%d, chunk=%d, FASTA+MEME)" % (nj, ch)
					try:
						with numpy.errstate(all="ignore"):
							res = self.fm.fimo(mm, fa, **akw, **cfg)
					except Exception as e:
						out.violate("raised", "%s raised %s: %s" % (where, type(e).__name__,
							str(e)[:200]), key=type(e).__name__)
						break
					finally:
						numba.set_parallel_chunksize(0)
					out.bump("real.calls")
					out.bump("real.threads=%d" % nj)
					out.steps += 1
					got, dup = hits_to_set(res, names)
					log.log("real", nj, ch, sorted(got.items()))
					if dup:
						out.violate("duplicate_hit", "%s: hit %r reported twice" % (where, dup),
							key="dup")
						break
					if first is None:
						first = got
						self._compare_with_oracle(out, oracle, got, where, seq_lens)
					elif got != first:
						out.violate("thread_count_dependent", "%s: hit set / fields differ "
							"from the first execution (threads=%d)" % (where,
							case["n_jobs"][0]), key="threads")
					if out.violations:
						break
				if out.violations:
					break
			numba.set_num_threads(nthreads0)
			if first is not None and not out.violations:
				self._real_variants(out, case, world, cfg, md, fa, mm, names, first,
					seq_lens, log)
			if case.get("world2") and not out.violations:
				w2 = case["world2"]
				genome.write_meme(mm, [(m["name"], m["pwm"]) for m in w2["motifs"]])
				if w2.get("regenerated_fasta"):
					genome.write_fasta(fa, list(zip(names, [tr(s_) for s_ in w2["seqs"]])), width=
						case["fasta"]["width"] + 3, keep_index=True)
					seq_lens = [len(s_) for s_ in w2["seqs"]]
					out.bump("probe.second_scan_regenerated_fasta_same_path")
				try:
					with numpy.errstate(all="ignore"):
						res = self.fm.fimo(mm, fa, **akw, **w2["cfg"])
					got2, dup = hits_to_set(res, names)
					log.log("second", sorted(got2.items()))
					out.bump("probe.second_scan_same_names_other_values")
					self._compare_with_oracle(out, Oracle(self.fm, w2), got2, "second scan "
						"in the same process (same motif names/widths, other probabilities/"
						"eps)", seq_lens)
				except Exception as e:
					out.violate("raised", "second scan raised %s: %s" % (type(e).__name__,
						str(e)[:200]), key=type(e).__name__)
		finally:
			numba.set_num_threads(nthreads0)
			for p in (fa, fa + ".fai", mm):
				try:
					os.remove(p)
				except OSError:
					pass
		out.nontrivial = bool(first)
		out.digest = log.digest()
		out.sample = {"leg": "real", "seed": case.get("seed"), "motif_widths":
			[len(m["pwm"][0]) for m in world["motifs"]], "seq_lengths": seq_lens,
			"cfg": cfg, "threads": case["n_jobs"], "n_hits": len(first or {})}
		return out

	def _real_variants(self, out, case, world, cfg, md, fa, mm, names, first,
		seq_lens, log):
		fm = self.fm
		alpha = case["fasta"].get("alphabet")
		akw = {"alphabet": list(alpha)} if alpha else {}
		# return_counts and dim=1 on the file backend
		try:
			counts = fm.fimo(mm, fa, return_counts=True, **akw, **cfg)
			want = [0] * len(world["motifs"])
			for k in first:
				want[k[0]] += 1
			if list(map(int, counts)) != want:
				out.violate("counts_differ", "return_counts gives %r, the hit DataFrames "
					"contain %r" % (list(map(int, counts)), want), key="counts")
				return
			res1 = fm.fimo(mm, fa, dim=1, **akw, **cfg) if first else None
			if res1 is not None and not self._check_dim1(out, res1, first,
					"compiled fimo (FASTA+MEME)", names):
				return
			out.bump("real.variant.counts_dim1")
		except Exception as e:
			out.violate("raised", "fimo(return_counts / dim=1, reverse_complement=%s) "
				"raised %s: %s" % (cfg["reverse_complement"], type(e).__name__,
				str(e)[:200]), key={"exc": type(e).__name__,
				"rc": cfg["reverse_complement"]})
			return
		# tensor + dict backend (only when all sequences have the same length)
		if world["equal_length"] and len(set(seq_lens)) == 1:
			X = self._tensor(world["seqs"], case.get("xkind", "float32"))
			try:
				res = fm.fimo(md, X, **cfg)
			except Exception as e:
				out.violate("raised", "fimo(dict, tensor) raised %s: %s" % (
					type(e).__name__, str(e)[:200]), key=type(e).__name__)
				return
			got, dup = hits_to_set(res)
			log.log("tensor", sorted(got.items()))
			out.bump("real.variant.tensor_backend")
			if got != first:
				only_t = sorted(set(got) - set(first))[:3]
				only_f = sorted(set(first) - set(got))[:3]
				out.violate("backend_dependent", "tensor+dict input gives a different hit "
					"set / fields than FASTA+MEME input: only tensor %r, only files %r, "
					"%d vs %d hits" % (only_t, only_f, len(got), len(first)),
					key="backend")
				return
			# reverse-complement metamorphic relation
			if cfg["reverse_complement"]:
				Xrc = torch.flip(torch.as_tensor(X), dims=(1, 2))
				res = fm.fimo(md, Xrc, **cfg)
				grc, _ = hits_to_set(res)
				L = seq_lens[0]
				oracle = Oracle(fm, world)
				mirror = {}
				for (m, s, st, strand), v in grc.items():
					w = v[0] - st
					mirror[(m, s, L - st - w, "+" if strand == "-" else "-")] = v
				out.bump("real.variant.rc_metamorphic")
				def p_tie(k, sc):
					# the forward table and the reverse-complement table are the same
					# distribution summed in another order; when a bin's p-value equals
					# the threshold to the last bit (dyadic thresholds), `p < threshold`
					# is decided by rounding and may differ between the two strands
					for strand in "+-":
						t_ = oracle.table_for(k[0], strand)
						b_ = int(sc / oracle.cfg["bin_size"]) - t_["smallest"]
						for bb in (b_ - 1, b_, b_ + 1):
							if 0 <= bb < len(t_["table"]):
								pv = 2.0 ** t_["table"][bb]
								if abs(pv - oracle.cfg["threshold"]) <= 1e-9 * oracle.cfg["threshold"]:
									return True
					return False
				for k in set(mirror) ^ set(got):
					t = oracle.table_for(k[0], k[3])
					sc = float((got.get(k) or mirror.get(k))[1])
					if p_tie(k, sc):
						out.bump("relaxed.rc_asymmetry_at_exact_p_value_tie")
						continue
					if abs(sc - t["thr"]) > 2 * oracle.band(t["thr"]):
						out.violate("rc_asymmetric", "scanning the reverse complement of the "
							"sequences does not give the mirror-image hit set: window %r "
							"(score %.6g, threshold %.6g) is reported on one side only" % (k,
							sc, t["thr"]), key="rc")
						return
				for k in set(mirror) & set(got):
					if abs(mirror[k][1] - got[k][1]) > 1e-9 * max(1.0, abs(got[k][1])):
						out.violate("rc_asymmetric", "mirror-image hit %r has score %.12g vs "
							"%.12g" % (k, mirror[k][1], got[k][1]), key="rc")
						return

	def minimise(self, case, klass, key):
		b = minimise.Budget(100)
		test = lambda c: self.still_fails(c, klass, None)
		case = copy.deepcopy(case)
		case = minimise.ddmin_list(case, ["world", "motifs"], test, b, min_len=1)
		case = minimise.ddmin_list(case, ["world", "seqs"], test, b, min_len=1)
		if case["leg"] == "sim":
			case = minimise.ddmin_list(case, ["plans"], test, b, min_len=1)
		else:
			case = minimise.ddmin_list(case, ["n_jobs"], test, b, min_len=1)
			case = minimise.ddmin_list(case, ["chunks"], test, b, min_len=1)
		return case

	def confirm_attempts(self, leg):
		return 2 if leg == "real" else 1

	def extra_coverage(self, agg, tier):
		return {"fault_kinds": ["threads.K (simulated)", "dist.static_block/cyclic/"
			"dynamic/one", "sched.interleaving", "alloc poison of numpy.empty", "real "
			"thread counts x chunk sizes", "io.backend FASTA+MEME vs tensor+dict"]}


CHECK = C12()
