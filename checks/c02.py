"""C02 -- shuffles preserve composition, flanks and determinism.

Leg 'rng'   simulated RNG: the real dinucleotide_shuffle wrapper code runs around
            an Euler walk whose every `permutation` outcome is chosen by the
            simulator (uniform seeded / identity / reversal / rotation).
Leg 'sweep' small-scope supplement: every outcome of every internal permutation
            for every sequence of a (alphabet, length) class (DFS over the
            decision tree).  Exhaustive within its scope; reported separately.
Leg 'hist'  the shipped compiled code under call histories: sessions mixing
            shuffle / dinucleotide_shuffle calls with integer seeds, global RNG
            perturbations (NumPy's and numba's generators), thread-count changes
            and calls from a second thread; identical calls must return
            bit-identical tensors whatever happened in between.
"""

import collections
import copy
import itertools
import threading

import numpy
import torch

from simkit import core, minimise, repo, runner


def as_kind(X, kind):
	"""Same one-hot values as another dtype / memory layout."""
	if kind == "int8":
		return X.to(torch.int8)
	if kind == "float16":
		return X.to(torch.float16)
	if kind == "bfloat16":
		return X.to(torch.bfloat16)
	if kind == "float64":
		return X.to(torch.float64)
	if kind == "strided":
		big = torch.zeros(*X.shape[:-1], X.shape[-1] * 2, dtype=X.dtype)
		big[..., ::2] = X
		return big[..., ::2]
	return X


def onehot(idx, A):
	L = len(idx)
	X = torch.zeros(A, L, dtype=torch.float32)
	for j, c in enumerate(idx):
		if c >= 0:
			X[c, j] = 1
	return X


def gen_sequence(r, A, L):
	style = r.wchoice(["uniform", "lowcomplex", "alternating", "rare_last", "repeat",
		"homopolymer_runs"], [4, 2, 2, 2, 2, 2])
	if style == "uniform":
		s = [r.randint(0, A - 1) for _ in range(L)]
	elif style == "lowcomplex":
		k = r.randint(1, min(2, A))
		chars = r.sample(range(A), k)
		s = [r.choice(chars) for _ in range(L)]
	elif style == "alternating":
		a, b = r.sample(range(A), 2) if A >= 2 else (0, 0)
		s = [a if i % 2 == 0 else b for i in range(L)]
		if r.chance(0.5) and L > 3:
			s[r.randint(1, L - 2)] = r.randint(0, A - 1)
	elif style == "rare_last":
		c = r.randint(0, A - 1)
		others = [x for x in range(A) if x != c] or [c]
		s = [r.choice(others) for _ in range(L)]
		s[-1] = c
	elif style == "repeat":
		u = [r.randint(0, A - 1) for _ in range(r.randint(1, 4))]
		s = (u * (L // len(u) + 1))[:L]
	else:
		s = []
		while len(s) < L:
			s += [r.randint(0, A - 1)] * r.randint(1, 5)
		s = s[:L]
	return s


def pair_counts(seq):
	return collections.Counter(zip(seq[:-1], seq[1:]))


def check_output(Xin, Y, region, kind, where):
	"""Output invariants of one (example) result Y (n, A, L) vs input Xin (A, L).
	Returns (class, detail) or None."""
	A, L = Xin.shape
	s, e = region
	xin = Xin.argmax(dim=0).tolist()
	for j in range(Y.shape[0]):
		y = Y[j]
		col = y.sum(dim=0)
		if y.shape != Xin.shape:
			return ("shape", "%s: shuffle %d has shape %r" % (where, j, tuple(y.shape)))
		if not bool(((y == 0) | (y == 1)).all()) or not bool((col == 1).all()):
			badpos = [int(p) for p in torch.nonzero(col != 1).flatten()[:5]]
			return ("not_one_hot", "%s: shuffle %d is not a valid one-hot encoding at "
				"positions %r" % (where, j, badpos))
		yi = y.argmax(dim=0).tolist()
		if yi[:s] != xin[:s] or yi[e:] != xin[e:]:
			return ("flank_changed", "%s: shuffle %d differs from the input outside the "
				"region [%d,%d)" % (where, j, s, e))
		a, b = xin[s:e], yi[s:e]
		if kind == "mono":
			if collections.Counter(a) != collections.Counter(b):
				return ("composition_changed", "%s: shuffle %d changes character counts "
					"inside the region: %r -> %r" % (where, j, a, b))
		else:
			if pair_counts(a) != pair_counts(b) or (a and (a[0] != b[0] or a[-1] != b[-1])):
				return ("dinucleotides_changed", "%s: shuffle %d does not preserve the "
					"ordered-pair counts / end characters of the region: %r -> %r" % (
					where, j, a, b))
	return None


class C02(runner.Check):
	prop_id = "C02"
	level = "exploration"
	hang_s = 300
	rule = ("Leg 'rng': one evaluation = one dinucleotide_shuffle call (1-3 sequences over "
		"2-6 characters, length 2-60, seeded region and n) executed on a simulated RNG "
		"with a seeded answer to every internal permutation draw; leg 'sweep': one "
		"evaluation = one (alphabet, length, block of sequences) class for which every "
		"sequence and EVERY outcome of every permutation draw is enumerated; leg 'hist': "
		"one evaluation = one session of 5-30 calls of the compiled code with integer "
		"seeds from a small pool interleaved with global RNG / thread perturbations. "
		"Non-trivial: a character had >= 3 outgoing transitions (rng/sweep) or a repeated "
		"(input, region, n, seed) call occurred after a perturbation (hist); distinct = "
		"distinct event-log digests.")
	assumptions = [
		"leg 'rng'/'sweep' interpret the working-tree source of _fast_shuffle with CPython; "
		"numba's permutation(m<=0)=empty semantics is reproduced by the RNG seam",
		"seeds are integers in [-2**31, 2**31 - n) (the jitted signature takes int32); "
		"negative seeds are included: the pinned code accepts and reproduces them",
		"a ValueError 'All dinucleotide shuffles yield identical sequences' (n > 1 on "
		"a sequence with a unique Euler path) is the function declining to return, "
		"which the statement allows",
	]
	real_vs_stub = {
		"real": ["ersatz.dinucleotide_shuffle/_dinucleotide_shuffle wrapper code", "source "
			"of _fast_shuffle (interpreted) in legs rng/sweep", "compiled _fast_shuffle and "
			"ersatz.shuffle in leg hist"],
		"simulated": ["numpy.random.seed/permutation inside the walk (legs rng/sweep)",
			"process-global RNG state, numba thread count, caller thread (leg hist)"],
	}
	tiers = {
		"quick": {"legs": [("rng", 20000), ("sweep", 60), ("hist", 3000)],
			"wall_cap_s": 600, "chunk": 100},
		"thorough": {"legs": [("rng", 2000000), ("sweep", 1400), ("hist", 150000)],
			"wall_cap_s": 5400, "chunk": 1000},
	}

	def prepare(self, tier, fresh=False):
		repo.setup()
		from tangermeme import ersatz
		self.ersatz = ersatz
		ersatz.dinucleotide_shuffle(torch.eye(4)[None].repeat(1, 1, 3), n=1,
			random_state=0)
		self._sweep_items = self._plan_sweep(tier)
		_numba_rng_fns()      # compile now: compiling later would reseed numba's RNG mid-case

	# -- sweep planning: (A, L, block, n_blocks) ---------------------------------
	def _plan_sweep(self, tier):
		scopes = [(2, L) for L in range(3, 9)] + [(3, L) for L in range(3, 8)] + \
			[(4, L) for L in range(3, 7)]
		if tier == "thorough":
			scopes += [(3, 8), (4, 7), (4, 8)]
		items = []
		for A, L in scopes:
			total = A ** L
			nb = max(1, total // 400)
			for b in range(nb):
				items.append((A, L, b, nb))
		return items

	def plan(self, tier, base_seed):
		items = super().plan(tier, base_seed)
		out = []
		n_sweep = 0
		for leg, seed in items:
			if leg == "sweep":
				if n_sweep < len(self._sweep_items):
					out.append((leg, n_sweep))
				n_sweep += 1
			else:
				out.append((leg, seed))
		return out

	# -- generation ----------------------------------------------------------
	def gen_case(self, leg, seed, tier):
		if leg == "sweep":
			A, L, b, nb = self._sweep_items[seed % len(self._sweep_items)]
			return {"leg": "sweep", "seed": seed, "A": A, "L": L, "block": b,
				"n_blocks": nb}
		S = core.Streams(seed)
		r = S("workload")
		A = r.wchoice([2, 3, 4, 5, 6], [2, 2, 5, 1, 1])
		if leg == "rng":
			# a few long sequences: some code paths depend on a character having
			# hundreds of outgoing transitions
			L = r.wchoice([r.randint(2, 12), r.randint(12, 60), r.randint(300, 2500),
				r.randint(65600, 67000)], [200, 200, 20, 1])
			if L > 60:
				A = r.choice([2, 2, 4])
			n_ex = r.randint(1, 3) if L < 60000 else 1
			seqs = [gen_sequence(r, A, L) for _ in range(n_ex)]
			s = r.randint(0, max(0, L - 3))
			e = r.randint(min(L, s + 3), L) if r.chance(0.7) else L
			if r.chance(0.15):
				s, e = 0, -1
			return {"leg": "rng", "seed": seed, "A": A, "seqs": seqs, "start": s,
				"end": e, "n": r.wchoice([1, 2, 3, 4], [6, 2, 1, 1]), "strategy": r.wchoice(["uniform",
				"identity", "reverse", "rotate"], [6, 1, 1, 1]),
				"rng_seed": S("schedule").subseed(), "random_state": r.randint(0, 10 ** 6),
				"xkind": r.wchoice(["float32", "int8", "float64", "strided"], [4, 2, 1, 1])}
		# hist
		L = r.wchoice([r.randint(4, 40), r.randint(300, 2500), r.randint(65600, 70000),
			r.randint(8000, 13000)], [48, 4, 1, 2])
		if L > 40:
			A = r.choice([2, 2, 4])
		pool = [gen_sequence(r, A, L) for _ in range(r.randint(1, 3) if L < 60000 else 1)]
		seeds = [r.randint(0, 2 ** 31 - 100) for _ in range(2)] + [0, 1] + \
			[r.choice([-1, -2, -7, -1000, -(2 ** 31) + 5])]
		regions = [(0, -1), (0, L)]
		for _ in range(2):
			s = r.randint(0, L - 3)
			regions.append((s, r.randint(s + 3, L)))
		if L >= 8:
			regions.append((r.randint(0, 2), -r.randint(2, 3)))     # negative end other than -1
			regions.append((-r.randint(5, min(L - 1, 30)), -1))      # "the last k positions"
		ops = []
		for _ in range(r.randint(5, 30) if L < 60000 else r.randint(3, 6)):
			kind = r.wchoice(["dinuc", "mono", "np_seed", "np_draw", "nb_seed", "nb_draw",
				"threads", "torch_seed"], [8, 5, 1, 1, 1, 1, 1, 1])
			op = {"kind": kind}
			if kind in ("dinuc", "mono"):
				k = r.randint(1, len(pool))
				op.update(ex=r.sample(range(len(pool)), k), region=list(r.choice(regions)),
					n=r.choice([1, 1, 2, 3]), rs=r.choice(seeds), thread=r.chance(0.15))
				if kind == "mono" and op["region"][0] < 0:
					op["region"] = [0, op["region"][1]]        # shuffle() rejects a negative start
				if kind == "mono" and op["rs"] < 0:
					op["rs"] = -op["rs"]        # RandomState rejects negative seeds
				op["seed_type"] = r.wchoice(["int", "numpy.int64", "numpy.int32"], [5, 1, 1])
				op["np_bounds"] = r.chance(0.2)
				op["positional"] = r.chance(0.2)
				op["verbose"] = r.chance(0.25)
				if L <= 40 and r.chance(0.04):
					op["n"] = r.randint(257, 520)          # more shuffles than any block size
				op["xkind"] = r.wchoice(["float32", "int8", "float64", "strided", "float16",
					"bfloat16"], [8, 4, 2, 2, 1, 1])
				if r.chance(0.35):
					# a second thread touching process-global generators in the middle
					# of the call (statement-level pre-emption points)
					op["interfere"] = {"points": sorted(set(r.randint(1, 60)
						for _ in range(r.randint(1, 3)))), "what": r.choice(["np_draw",
						"np_seed", "torch_seed", "py_random"])}
			elif kind in ("np_seed", "nb_seed", "torch_seed"):
				op["v"] = r.randint(0, 10 ** 6)
			elif kind == "threads":
				op["v"] = r.randint(1, 4)
			ops.append(op)
		return {"leg": "hist", "seed": seed, "A": A, "pool": pool, "ops": ops}

	# -- execution -----------------------------------------------------------
	def run_case(self, case):
		if case["leg"] == "rng":
			return self._run_rng(case)
		if case["leg"] == "sweep":
			return self._run_sweep(case)
		return self._run_hist(case)

	def _region(self, L, s, e):
		return tuple(range(*slice(s, e).indices(L))[i] for i in (0, -1)) if \
			len(range(*slice(s, e).indices(L))) else (0, 0)

	def _one_sim_call(self, X, s, e, n, src, random_state):
		from engines.rngseam import SimErsatz
		sim = SimErsatz(self.ersatz, src)
		Y = sim.dinucleotide_shuffle(X, start=s, end=e, n=n, random_state=random_state)
		return sim, Y

	def _walk_diag(self, sim, n):
		"""counters == next_idxs_counts after every walk (diagnostic)."""
		for counts, counters in sim.calls:
			for j in range(counters.shape[0]):
				if not numpy.array_equal(counters[j], counts):
					return ("walk_stranded", "walk %d consumed %r of the transitions %r" % (
						j, counters[j].tolist(), counts.tolist()))
		return None

	def _run_rng(self, case):
		import random
		from engines.rngseam import PermSource
		out = core.Outcome()
		log = core.EventLog()
		A = case["A"]
		X = as_kind(torch.stack([onehot(s, A) for s in case["seqs"]]),
			case.get("xkind", "float32"))
		X0 = X.clone()
		L = X.shape[-1]
		s, e, n = case["start"], case["end"], case["n"]
		idx = range(*slice(s, e).indices(L))
		region = (idx[0], idx[-1] + 1) if len(idx) else (0, 0)
		src = PermSource(strategy=case["strategy"], rng=random.Random(case["rng_seed"]))
		log.log("case", case["seqs"], s, e, n, case["strategy"], case["rng_seed"])
		out.steps = 1
		try:
			sim, Y = self._one_sim_call(X, s, e, n, src, case["random_state"])
		except Exception as ex:
			if isinstance(ex, ValueError) and "identical" in str(ex):
				out.bump("declined.identical_shuffles")
				out.digest = log.digest()
				out.nontrivial = False
				return out
			if region[1] - region[0] <= 2:
				out.bump("declined.region_shorter_than_3")
				out.digest = log.digest()
				out.nontrivial = False
				return out
			out.violate("raised", "dinucleotide_shuffle raised %s: %s for a valid one-hot "
				"input" % (type(ex).__name__, ex), key=type(ex).__name__)
			out.digest = log.digest()
			return out
		out.steps = src.n_draws
		out.bump("rng.draws", src.n_draws)
		out.bump("rng.strategy." + case["strategy"])
		big = max(src.radix) if src.radix else 1
		if big >= 2:
			out.bump("probe.char_with_>=3_successors")
		log.log("Y", Y)
		bad = None
		if tuple(Y.shape) != (X.shape[0], n, A, L):
			bad = ("shape", "result shape %r, expected %r" % (tuple(Y.shape),
				(X.shape[0], n, A, L)))
		for i in range(X.shape[0]):
			if bad:
				break
			bad = check_output(X0[i], Y[i], region, "di", "example %d %r region [%d,%d) "
				"n=%d strategy=%s" % (i, case["seqs"][i], region[0], region[1], n,
				case["strategy"]))
		if not bad and not torch.equal(X, X0):
			bad = ("input_modified", "the input tensor was modified")
		if not bad:
			bad = self._walk_diag(sim, n)
		if bad:
			out.violate(bad[0], bad[1], key=bad[0])
		out.nontrivial = big >= 2
		out.digest = log.digest()
		out.sample = {"leg": "rng", "seed": case.get("seed"), "seqs": case["seqs"],
			"region": [s, e], "n": n, "strategy": case["strategy"]}
		return out

	def _run_sweep(self, case):
		from engines.rngseam import PermSource, next_prefix
		out = core.Outcome()
		log = core.EventLog()
		A, L = case["A"], case["L"]
		total = A ** L
		lo = total * case["block"] // case["n_blocks"]
		hi = total * (case["block"] + 1) // case["n_blocks"]
		n_outcomes = 0
		maxrad = 1
		for code in range(lo, hi):
			seq = []
			c = code
			for _ in range(L):
				seq.append(c % A)
				c //= A
			X = onehot(seq, A)[None]
			prefix = []
			while prefix is not None:
				src = PermSource(prefix=prefix)
				try:
					sim, Y = self._one_sim_call(X, 0, L, 1, src, 0)
				except Exception as ex:
					out.violate("raised", "sequence %r, permutation outcomes %r: raised "
						"%s: %s" % (seq, src.taken, type(ex).__name__, ex),
						key=type(ex).__name__, seq=seq, prefix=list(prefix))
					break
				n_outcomes += 1
				bad = check_output(X[0], Y[0], (0, L), "di", "sequence %r, permutation "
					"outcomes %r" % (seq, src.taken)) or self._walk_diag(sim, 1)
				if bad:
					out.violate(bad[0], bad[1], key=bad[0], seq=seq, prefix=list(src.taken))
					break
				maxrad = max(maxrad, max(src.radix) if src.radix else 1)
				prefix = next_prefix(src.taken, src.radix)
			if out.violations:
				break
		out.steps = n_outcomes
		out.bump("sweep.sequences", hi - lo)
		out.bump("sweep.permutation_outcomes", n_outcomes)
		out.note("sweep_scopes", (A, L))
		log.log("sweep", A, L, case["block"], case["n_blocks"], n_outcomes)
		out.nontrivial = maxrad >= 2
		out.digest = log.digest()
		out.sample = {"leg": "sweep", "alphabet": A, "length": L, "block": case["block"],
			"n_blocks": case["n_blocks"], "sequences": hi - lo, "outcomes": n_outcomes}
		return out

	def _run_hist(self, case):
		import numba
		out = core.Outcome()
		log = core.EventLog()
		A = case["A"]
		pool = [onehot(s, A) for s in case["pool"]]
		L = pool[0].shape[-1]
		log.log("case", case["pool"])
		seen = {}
		kept = []
		perturbed_since = {}
		nthreads0 = numba.get_num_threads()
		nb_seed, nb_draw = _numba_rng_fns()
		nontrivial = False
		try:
			for oi, op in enumerate(case["ops"]):
				kind = op["kind"]
				out.steps += 1
				out.bump("op." + kind)
				if kind == "np_seed":
					numpy.random.seed(op["v"])
				elif kind == "np_draw":
					numpy.random.rand(5)
				elif kind == "nb_seed":
					nb_seed(op["v"])
				elif kind == "nb_draw":
					nb_draw(7)
				elif kind == "torch_seed":
					torch.manual_seed(op["v"])
				elif kind == "threads":
					numba.set_num_threads(min(op["v"], numba.config.NUMBA_NUM_THREADS))
				if kind not in ("dinuc", "mono"):
					for k in perturbed_since:
						perturbed_since[k] = True
					continue
				X = as_kind(torch.stack([pool[i] for i in op["ex"]]), op.get("xkind", "float32"))
				X0 = X.clone()
				s, e = op["region"]
				fn = self.ersatz.dinucleotide_shuffle if kind == "dinuc" else \
					self.ersatz.shuffle
				box = {}

				def call():
					try:
						if op.get("thread"):
							repo.numba_seed(core.derive_seed(case.get("seed", 0), "thread", oi))
						rs = op["rs"]
						if op.get("seed_type", "int") != "int":
							rs = getattr(numpy, op["seed_type"].split(".")[1])(rs)
						vkw = {"verbose": True} if (op.get("verbose") and kind == "dinuc") else {}
						s_, e_, n_ = s, e, op["n"]
						if op.get("np_bounds"):
							s_, e_, n_ = numpy.int64(s), numpy.int64(e), numpy.int64(op["n"])
						itf = op.get("interfere")
						if itf:
							from engines.preempt import run_with_interference
							import random as _random

							def interfere(k):
								if itf["what"] == "np_draw":
									numpy.random.rand(3)
								elif itf["what"] == "np_seed":
									numpy.random.seed(k * 7919 % 100003)
								elif itf["what"] == "torch_seed":
									torch.manual_seed(k * 31)
								else:
									_random.random()
							import contextlib, io as _io
							with contextlib.redirect_stdout(_io.StringIO()), \
									contextlib.redirect_stderr(_io.StringIO()):
								box["Y"], npts, fired = run_with_interference(lambda: fn(X,
									start=s_, end=e_, n=n_, random_state=rs, **vkw), "tangermeme",
									itf["points"], interfere)
							box["fired"] = fired
						else:
							import contextlib, io as _io
							with contextlib.redirect_stdout(_io.StringIO()), \
									contextlib.redirect_stderr(_io.StringIO()):
								if op.get("positional") and not vkw:
									box["Y"] = fn(X, s_, e_, n_, rs)       # (X, start, end, n, random_state)
								else:
									box["Y"] = fn(X, start=s_, end=e_, n=n_, random_state=rs, **vkw)
					except BaseException as ex:
						box["exc"] = ex
				if op.get("thread"):
					t = threading.Thread(target=call)
					t.start(); t.join()
					out.bump("probe.call_from_other_thread")
				else:
					call()
				if box.get("fired"):
					out.bump("probe.interference_inside_call", len(box["fired"]))
					nontrivial = True
				desc = "op %d %s(examples=%r, start=%d, end=%d, n=%d, random_state=%d%s)" % (
					oi, "dinucleotide_shuffle" if kind == "dinuc" else "shuffle", op["ex"],
					s, e, op["n"], op["rs"], (" as %s" % op.get("seed_type", "int")) +
					(", other thread" if op.get("thread") else "") +
					((", interfering %s at statements %r" % (op["interfere"]["what"],
					box.get("fired"))) if op.get("interfere") else ""))
				key = (kind, tuple(op["ex"]), s, e, op["n"], op["rs"], str(X.dtype))
				if "exc" in box:
					ex = box["exc"]
					if isinstance(ex, ValueError) and "identical" in str(ex):
						out.bump("declined.identical_shuffles")
						prev = seen.get(key)
						if prev is not None and prev != "declined":
							out.violate("not_deterministic", "%s declined (ValueError) but "
								"an identical earlier call returned" % desc, key="declined")
							break
						seen[key] = "declined"
						continue
					rl = len(range(*slice(s, e).indices(L))) if kind == "dinuc" else 99
					if rl <= 2 and isinstance(ex, Exception):
						out.bump("declined.region_shorter_than_3")
						continue
					out.violate("raised", "%s raised %s: %s" % (desc, type(ex).__name__, ex),
						key=type(ex).__name__)
					break
				Y = box["Y"]
				log.log("Y", oi, Y)
				if kind == "dinuc":
					idx = range(*slice(s, e).indices(L))
					region = (idx[0], idx[-1] + 1)
				else:
					ee = e if e >= 0 else L + 1 + e
					region = (s, ee)
				bad = None
				if tuple(Y.shape) != (len(op["ex"]), op["n"], A, L):
					bad = ("shape", "%s: result shape %r" % (desc, tuple(Y.shape)))
				for i in range(len(op["ex"])):
					if bad:
						break
					bad = check_output(X0[i], Y[i], region, "di" if kind == "dinuc" else
						"mono", "%s example %d %r" % (desc, i, case["pool"][op["ex"][i]]))
				if not bad and not torch.equal(X, X0):
					bad = ("input_modified", "%s modified its input tensor" % desc)
				if bad:
					out.violate(bad[0], bad[1], key=bad[0])
					break
				yb = (str(Y.dtype), tuple(Y.shape), Y.to(torch.float32).numpy().tobytes())
				prev = seen.get(key)
				if prev is not None:
					out.bump("probe.repeated_call")
					if perturbed_since.get(key):
						out.bump("probe.repeated_call_after_perturbation")
						nontrivial = True
					if prev == "declined" or prev != yb:
						out.violate("not_deterministic", "%s returned a different result "
							"than an identical earlier call in this session" % desc,
							key="repeat")
						break
				seen[key] = yb
				if len(kept) < 12 and Y.numel() < 200000:
					kept.append((oi, Y, yb))
				perturbed_since[key] = False
				# per-example independence of the seed schedule: example i of a
				# multi-example call uses seed rs + i
			for oi_, obj, b in kept:
				if (str(obj.dtype), tuple(obj.shape),
						obj.to(torch.float32).numpy().tobytes()) != b:
					out.violate("earlier_result_mutated", "the tensor returned by op %d was "
						"changed by a later call in the same session" % oi_, key="mutated")
					break
		finally:
			numba.set_num_threads(nthreads0)
		out.nontrivial = nontrivial
		out.digest = log.digest()
		out.sample = {"leg": "hist", "seed": case.get("seed"), "pool": case["pool"],
			"ops": case["ops"][:10]}
		return out

	def minimise(self, case, klass, key):
		b = minimise.Budget(150)
		test = lambda c: self.still_fails(c, klass, None)
		case = copy.deepcopy(case)
		if case["leg"] == "hist":
			case = minimise.ddmin_list(case, ["ops"], test, b, min_len=1)
		elif case["leg"] == "rng":
			case = minimise.ddmin_list(case, ["seqs"], test, b, min_len=1)
			case = minimise.shrink_int(case, ["n"], test, b, lo=1)
			case = minimise.try_values(case, ["strategy"], ["identity", "reverse"], test, b)
		return case

	def extra_coverage(self, agg, tier):
		return {"sweep_exhaustive_scopes (alphabet, length) fully enumerated incl. every "
			"permutation outcome": len(agg.distinct.get("sweep_scopes", ())),
			"sweep_note": "each scope is split into blocks; a scope is complete when all "
				"its blocks ran (see runs_by_leg / planned)",
			"fault_kinds": ["rng.perm.uniform", "rng.perm.identity", "rng.perm.reverse",
				"rng.perm.rotate", "rng.perm.enumerated", "global.np_seed", "global.np_draw",
				"global.numba_seed", "global.numba_draw", "global.torch_seed",
				"global.numba_threads", "call from another thread", "sched.interfering thread "
				"touching global generators at statement k inside a call (settrace "
				"pre-emption points)"]}


_NB = None


def _numba_rng_fns():
	"""Functions that perturb numba's own (thread-local) generator."""
	global _NB
	if _NB is None:
		import numba

		@numba.njit
		def nb_seed(s):
			numpy.random.seed(s)

		@numba.njit
		def nb_draw(k):
			t = 0.0
			for _ in range(k):
				t += numpy.random.random()
			return t
		nb_seed(1)
		nb_draw(1)
		_NB = (nb_seed, nb_draw)
	return _NB


CHECK = C02()
