"""C13 -- TOMTOM results are independent of threads, co-processed queries and order.

Deterministic simulation of the `prange` loop of tools/tomtom.py::_tomtom: K
simulated threads, seeded work distribution and statement-level interleaving,
poisoned `numpy.empty` scratch, sessions of several calls so that scratch is
re-used after longer and shorter queries.  Oracle: every row equals, bit for bit,
the row obtained for that query alone on one thread with zeroed scratch.
"""

import copy
import os
import sys

import numpy

from simkit import core, minimise, repo, runner

PLANES = ("p", "score", "offset", "overlap", "strand")


def _gen_motif(r, w, style):
	cols = []
	for _ in range(w):
		s = style if style != "mixed" else r.choice(["dirichlet", "grid", "near",
			"onehot", "uniform"])
		if s == "dirichlet":
			a = r.choice([0.1, 0.5, 2.0])
			g = [r._r.gammavariate(a, 1.0) + 1e-12 for _ in range(4)]
			t = sum(g)
			col = [x / t for x in g]
		elif s == "grid":
			d = r.choice([2, 4, 10])
			cnt = [0, 0, 0, 0]
			for _ in range(d):
				cnt[r.randint(0, 3)] += 1
			col = [c / d for c in cnt]
		elif s == "near":
			i = r.randint(0, 3)
			col = [0.01] * 4
			col[i] = 0.97
		elif s == "onehot":
			i = r.randint(0, 3)
			col = [0.0] * 4
			col[i] = 1.0
		elif s == "counts":
			# a count matrix: non-negative integers, columns with different totals
			col = [float(r.choice([0, 0, 1, 2, 3, 5, 9, 14])) for _ in range(4)]
			if not any(col):
				col[r.randint(0, 3)] = float(r.randint(1, 9))
		elif s == "rounded":
			# probabilities as printed with two decimals: columns sum to 1 +- 0.02
			g = [r._r.gammavariate(r.choice([0.5, 2.0]), 1.0) + 1e-12 for _ in range(4)]
			t = sum(g)
			col = [round(x / t, 2) for x in g]
			if not any(col):
				col = [0.25] * 4
		else:
			col = [0.25] * 4
		cols.append(col)
	return [[cols[j][i] for j in range(w)] for i in range(4)]   # (4, w)


def _gen_plan(r, n_queries, Kmax):
	K = r.wchoice([1, 2, 3, 4, 5, 8, 16], [2, 4, 4, 3, 2, 2, 1])
	K = min(K, Kmax)
	kind = r.wchoice(["static_block", "cyclic", "dynamic", "one"], [4, 3, 4, 1])
	dist = {"kind": kind}
	if kind in ("cyclic", "dynamic"):
		dist["chunk"] = r.choice([1, 1, 2, 3])
	if kind == "one":
		dist["tid"] = r.randint(0, K - 1)
	alloc = {"default": r.wchoice(["zero", "nan", "huge", "neg", "rand", "stale"],
		[1, 3, 3, 1, 3, 4]), "seed": r.subseed(), "by_index": {}}
	if r.chance(0.3):
		for idx in r.sample(range(10), r.randint(1, 3)):
			alloc["by_index"][str(idx)] = r.choice(["zero", "nan", "huge", "neg",
				"rand", "stale"])
	return {"K": K, "dist": dist, "sched": {"seed": r.subseed(),
		"stick": r.choice([0.0, 0.3, 0.7, 0.95])}, "alloc": alloc}


class C13(runner.Check):
	prop_id = "C13"
	level = "exploration"
	hang_s = 240
	rule = ("One evaluation = one simulated session: a generated world (targets, "
		"query pool with deliberately mixed lengths -- probability, one-hot, two-decimal "
		"rounded and count matrices, in mixed dtypes --, TOMTOM configuration) and 1-3 "
		"tomtom()/annotate_seqlets() calls, each with its own query list (subset / "
		"permutation / duplication of the pool), thread count K, work distribution, "
		"statement-level interleaving and poison for every numpy.empty scratch "
		"allocation; leg 'real' runs the shipped compiled binary at real thread counts "
		"and chunk sizes. A run is non-trivial when at least one call used K>=2 "
		"threads with >=2 queries or non-zero poison, and distinct when its event-log "
		"digest (world + executed schedule + results) is new.")
	assumptions = [
		"pre-emption points are the Python statements of the prange body; the compiled "
		"kernels (_integer_distances_and_histogram, _p_value_backgrounds, _p_values, "
		"_merge_rc_results) run atomically, which is exact as long as they touch only "
		"the arrays they are handed",
		"the orchestration of _tomtom is executed by CPython from the working-tree "
		"source; numba typing of scalars is reproduced by re-boxing kernel results "
		"(uint64 offset) -- the real-thread leg ties this back to the shipped binary",
		"the single numpy.empty inside a kernel (_p_values: t_sums) is not poisoned; "
		"it is fully written before use by inspection",
		"queries for which the single-query reference execution itself raises (e.g. "
		"ZeroDivisionError for degenerate distance ranges) are outside the function's "
		"domain and are dropped from the call",
		"real-thread leg: the OpenMP schedule is not controlled, so that leg is "
		"corroboration only",
	]
	real_vs_stub = {
		"real": ["tangermeme.tools.tomtom.tomtom (wrapper)", "annotate.annotate_seqlets",
			"compiled numba kernels", "source of _tomtom (interpreted)",
			"compiled parallel _tomtom (leg 'real' only)"],
		"simulated": ["numba work-sharing runtime (thread ids, work distribution, "
			"interleaving)", "numpy.empty contents"],
	}
	tiers = {
		"quick": {"legs": [("sim", 12000), ("real", 60)], "wall_cap_s": 600,
			"fresh_procs": 1, "chunk": 50},
		"thorough": {"legs": [("sim", 1000000), ("real", 6000)], "wall_cap_s": 3600,
			"fresh_procs": 4, "chunk": 500},
	}

	def __init__(self):
		self._st = None

	# -- setup ---------------------------------------------------------------
	def prepare(self, tier, fresh=False):
		repo.setup()
		from tangermeme.tools import tomtom as tt
		from engines.threads import Steppable
		self.tt = tt
		self._orig = tt._tomtom
		try:
			self._st = Steppable(tt._tomtom, depth=2)
		except Exception as e:
			self._st = None
			self._st_error = repr(e)
		if self._st is not None and not fresh:
			# compile the kernels once in the parent so that forked workers inherit them
			w = {"targets": [_gen_motif(core.Stream(1, "w"), 3, "dirichlet"),
				_gen_motif(core.Stream(2, "w"), 5, "dirichlet")],
				"pool": [_gen_motif(core.Stream(3, "w"), 4, "dirichlet")],
				"cfg": {"n_score_bins": 10, "n_median_bins": 50, "n_target_bins": 10,
					"n_cache": 10, "reverse_complement": True}}
			self._reference(w, 0)
			w["cfg"]["n_target_bins"] = None
			w["cfg"]["reverse_complement"] = False
			self._reference(w, 0)

	def leg_mode(self, leg):
		return "fresh" if leg == "real" else "fork"

	def fresh_env(self, tier):
		return {"NUMBA_NUM_THREADS": "16", "OMP_WAIT_POLICY": "PASSIVE",
			"GOMP_SPINCOUNT": "0"}

	# -- generation ----------------------------------------------------------
	def gen_case(self, leg, seed, tier):
		S = core.Streams(seed)
		r = S("workload")
		big = r.chance(0.25) and leg != "real"
		maxw = 12 if big else 8
		nT = r.randint(1, 8)
		bigdb = leg == "sim" and r.chance(0.04)
		if bigdb:
			nT = r.randint(300, 900)        # a real motif database: many near-equal p-values
			maxw = 8
			big = False
		tstyle = r.choice(["dirichlet", "mixed", "grid", "near", "mixed"])
		if bigdb:
			tstyle = "dirichlet"
		targets = [_gen_motif(r, r.randint(1 if not bigdb else 4, maxw), tstyle)
			for _ in range(nT)]
		if nT >= 2 and not bigdb and r.chance(0.25):
			# near-duplicate targets (a redundant database): essentially perfect
			# matches with slightly different, tiny p-values
			for _ in range(r.randint(1, max(1, nT // 2))):
				a, b = r.sample(range(nT), 2)
				t = copy.deepcopy(targets[b])
				j = r.randint(0, len(t[0]) - 1)
				d = r.choice([1e-5, 3e-5, 1e-3])
				col = [t[i][j] for i in range(4)]
				hi, lo = col.index(max(col)), col.index(min(col))
				if hi != lo and t[hi][j] - d >= 0:
					t[hi][j] -= d
					t[lo][j] += d
				targets[a] = t
		if nT >= 2 and r.chance(0.3):
			# duplicated targets give exact p-value ties (n_nearest tie handling)
			for _ in range(r.randint(1, max(1, nT // 2))):
				a, b = r.sample(range(nT), 2)
				targets[a] = copy.deepcopy(targets[b])
		onehot_pool = leg == "sim" and r.chance(0.15)
		nP = r.randint(2, 8)
		lens = [r.randint(1, maxw) for _ in range(nP)]
		lens[0] = r.randint(max(5, maxw - 3), maxw)      # a long one
		lens[1] = r.randint(1, 2)                         # and a short one
		lens = r.shuffle(lens)
		qstyle = "onehot" if onehot_pool else r.choice(["dirichlet", "mixed", "grid",
			"near", "mixed"])
		pool = [_gen_motif(r, w, qstyle) for w in lens]
		if not onehot_pool and r.chance(0.4):
			for j in r.sample(range(len(pool)), r.randint(1, max(1, len(pool) // 2))):
				pool[j] = _gen_motif(r, lens[j], "onehot")
		if not onehot_pool and r.chance(0.3):
			# near-twin queries (same motif from two sources) and queries that are
			# (almost) one of the targets
			for _ in range(r.randint(1, 2)):
				src = copy.deepcopy(r.choice(pool) if r.chance(0.5) else r.choice(targets))
				if r.chance(0.7):
					j = r.randint(0, len(src[0]) - 1)
					d = r.choice([1e-5, 4e-5, 2e-4])
					col = [src[i][j] for i in range(4)]
					hi, lo = col.index(max(col)), col.index(min(col))
					if hi != lo and src[hi][j] - d >= 0:
						src[hi][j] -= d
						src[lo][j] += d
				pool.append(src)
			nP = len(pool)
		if onehot_pool and r.chance(0.6):
			# seqlets containing unknown (all-zero, "N") columns, and twins that
			# differ from another seqlet only by N-versus-A
			for _ in range(r.randint(1, 3)):
				src = copy.deepcopy(pool[r.randint(0, len(pool) - 1)])
				w = len(src[0])
				if w < 2:
					continue
				cols = [j for j in range(w) if src[0][j] == 1.0] or list(range(w))
				j = r.choice(cols)
				for i in range(4):
					src[i][j] = 0.0
				pool.append(src)
			nP = len(pool)
		redundant = None
		if not onehot_pool and not bigdb and r.chance(0.15):
			# a redundant database: several targets contain one query verbatim (with
			# different flanks), so that query matches them all essentially perfectly
			# and their (tiny, possibly negative) p-values differ only in the last bits
			cands_ = [j for j in range(len(pool)) if len(pool[j][0]) >= 3]
			if cands_:
				redundant = r.choice(cands_)
				q_ = pool[redundant]
				for _ in range(r.randint(2, 3)):
					left = _gen_motif(r, r.randint(0, 2), "dirichlet") if r.chance(0.6) else None
					right = _gen_motif(r, r.randint(0, 3), "dirichlet") if r.chance(0.6) else None
					t = [list(row) for row in q_]
					if left and left[0]:
						t = [left[i] + t[i] for i in range(4)]
					if right and right[0]:
						t = [t[i] + right[i] for i in range(4)]
					if len(t[0]) <= 12:
						targets.append(t)
				nT = len(targets)
		c_ = S("counts")
		if not onehot_pool and not bigdb and c_.chance(0.25):
			# some queries are count matrices (entries > 1) and some are rounded
			# probability matrices (columns not summing to exactly 1)
			idx = [j for j in range(len(pool)) if j != redundant]
			for style in ("counts", "rounded"):
				for j in c_.sample(idx, min(len(idx), c_.randint(1, 2))):
					pool[j] = _gen_motif(c_, len(pool[j][0]), style)
		nb = r.choice([10, 20, 50, 100])
		cfg = {"n_score_bins": nb, "n_median_bins": r.choice([50, 1000]),
			"n_target_bins": r.choice([None, 10, 100]),
			"n_cache": nb if r.chance(0.7) else nb + r.choice([1, 10, 150]),
			"reverse_complement": r.chance(0.6)}
		case = {"leg": leg, "seed": seed, "targets": targets, "pool": pool, "cfg": cfg,
			"onehot_pool": onehot_pool}
		if leg == "real":
			case["lists"] = []
			for _ in range(2):
				n = r.randint(1, 12)
				case["lists"].append([r.randint(0, nP - 1) for _ in range(n)])
			case["lists"].append(list(range(nP)))
			case["n_jobs"] = [1] + r.sample([2, 3, 4, 5, 8, 16], 3)
			case["chunks"] = [0, r.choice([1, 2, 3])]
			case["n_nearest"] = r.choice([None, None, r.randint(1, nT)])
			return case
		s = S("schedule")
		calls = []
		Kmax = 8 if big else 16
		for _ in range(r.wchoice([1, 2, 3], [3, 4, 3])):
			n = r.wchoice([1, 2, 3, 4, 6, 8, 12], [1, 3, 4, 4, 3, 2, 1])
			mode = r.choice(["sample", "perm", "dup"])
			if mode == "perm":
				qs = r.shuffle(range(nP))[:max(1, min(n, nP))]
			elif mode == "dup":
				base = r.sample(range(nP), min(nP, max(1, n // 2)))
				qs = r.shuffle(base + [r.choice(base) for _ in range(n - len(base))])
			else:
				qs = [r.randint(0, nP - 1) for _ in range(n)]
			if redundant is not None and r.chance(0.6):
				qs = r.shuffle(qs + [redundant])
			if not big and not bigdb and r.chance(0.012):
				# a very long query list (more than any internal batch size)
				qs = [r.randint(0, nP - 1) for _ in range(r.randint(2050, 2300))]
			plan = _gen_plan(s, len(qs), Kmax)
			call = {"kind": "annotate" if (onehot_pool and r.chance(0.6)) else "tomtom",
				"queries": qs, "plan": plan,
				"n_nearest": None if r.chance(0.6) else (r.randint(1, nT) if not bigdb
					else r.randint(nT // 2, nT)),
				"use_n_jobs": r.chance(0.2),
				"layout": r.wchoice(["c", "f", "strided", "torch"], [5, 1, 1, 1]),
				"qdtype_seed": r.subseed() if r.chance(0.5) else None}
			if call["kind"] == "annotate" and call["n_nearest"] is None:
				call["n_nearest"] = r.randint(1, nT)
			calls.append(call)
		case["calls"] = calls
		return case

	# -- execution -----------------------------------------------------------
	def _arrays(self, case):
		Ts = [numpy.array(t, dtype="float64") for t in case["targets"]]
		pool = [numpy.array(q, dtype="float64") for q in case["pool"]]
		return Ts, pool

	@staticmethod
	def _lay(a, layout):
		"""The same values in another memory layout / container."""
		import torch
		if layout == "f":
			return numpy.asfortranarray(a)
		if layout == "strided":
			big = numpy.zeros((a.shape[0] * 2, a.shape[1] * 3), dtype=a.dtype) + 0.123
			big[::2, 1::3] = a
			return big[::2, 1::3]
		if layout == "torch":
			return torch.from_numpy(numpy.ascontiguousarray(a))
		return a

	def _sim_call(self, plan, fn, stale_pool=None, max_steps=60000):
		from engines.threads import ThreadSim
		sim = ThreadSim(plan, max_steps=max_steps, stale_pool=stale_pool)
		self.tt._tomtom = self._st.bind(sim)
		try:
			res = fn()
		finally:
			self.tt._tomtom = self._orig
		return sim, res

	def _reference(self, case, qi):
		Ts, pool = self._arrays(case)
		plan = {"K": 1, "dist": {"kind": "static_block"}, "alloc": {"default": "zero"}}
		sim, res = self._sim_call(plan, lambda: self.tt.tomtom([pool[qi]], Ts,
			n_jobs=-1, **case["cfg"]))
		return res.numpy()[:, 0, :]          # (5, nT)

	def run_case(self, case):
		if case["leg"] == "real":
			return self._run_real(case)
		out = core.Outcome()
		log = core.EventLog()
		if self._st is None:
			out.skipped = "prange source shape not recognised: " + self._st_error
			out.digest = log.digest()
			return out
		import torch
		import pandas
		from engines.threads import SimAbort
		Ts, pool = self._arrays(case)
		nT = len(Ts)
		log.log("world", case["targets"], case["pool"], case["cfg"])
		if any(float(q.max()) > 1.0 for q in pool):
			out.bump("world.count_matrix_queries")
		refs, bad = {}, set()
		with numpy.errstate(all="ignore"):
			for call in case["calls"]:
				for qi in call["queries"]:
					if qi in refs or qi in bad:
						continue
					try:
						refs[qi] = self._reference(case, qi)
					except (ZeroDivisionError, ValueError, FloatingPointError) as e:
						bad.add(qi)
						out.bump("domain.reference_raised." + type(e).__name__)
		stale = {}
		nontrivial = False
		kept = []            # (call index, returned object, bytes right after the call)
		qlens = [len(q[0]) for q in case["pool"]]
		for ci, call in enumerate(case["calls"]):
			qs = [q for q in call["queries"] if q in refs]
			if not qs:
				out.bump("call.empty_after_domain_filter")
				continue
			plan = call["plan"]
			K = plan["K"]
			nn = call["n_nearest"]
			kw = dict(case["cfg"])
			n_jobs = K if call.get("use_n_jobs") else -1
			if call["kind"] == "annotate":
				# seqlets cut out of one long one-hot tensor with spacer columns
				cols, spans = [], []
				pos = 0
				for q in qs:
					w = qlens[q]
					cols.append(pool[q])
					spans.append((0, pos, pos + w))
					pos += w
					cols.append(numpy.eye(4)[:, :1])
					pos += 1
				X = torch.from_numpy(numpy.concatenate(cols, axis=1))[None]
				seqlets = pandas.DataFrame(spans, columns=["example_idx", "start", "end"])
				if call.get("qdtype_seed") is not None:
					# a frame that was sorted / filtered without reset_index
					seqlets.index = [3 * (len(spans) - k) + 1 for k in range(len(spans))]
					seqlets["attribution"] = 0.5
				from tangermeme.annotate import annotate_seqlets
				motifs = {"m%d" % i: torch.from_numpy(t) for i, t in enumerate(Ts)}
				fn = lambda: annotate_seqlets(X, seqlets, motifs, n_nearest=nn,
					n_jobs=n_jobs, **kw)
			else:
				lay = call.get("layout", "c")
				Qarg = [self._lay(pool[q], lay) for q in qs]
				if call.get("qdtype_seed") is not None:
					# queries of one call need not share a dtype: 0/1-valued ones come as
					# int8 / bool / float32, the others stay float64
					import random as _random
					rr = _random.Random(call["qdtype_seed"])
					for i_, q in enumerate(qs):
						a = pool[q]
						if numpy.all((a == 0) | (a == 1)):
							if rr.random() < 0.7:
								Qarg[i_] = a.astype(rr.choice(["int8", "bool", "float32"]))
								out.bump("probe.query_dtype_mixed")
						elif numpy.all(a == numpy.round(a)) and rr.random() < 0.7:
							# a count matrix handed over as integers
							Qarg[i_] = a.astype(rr.choice(["int64", "int32", "float32"]))
							out.bump("probe.query_count_matrix_integer_dtype")
				Targ = [self._lay(t, lay) for t in Ts]
				fn = lambda: self.tt.tomtom(Qarg, Targ, n_nearest=nn, n_jobs=n_jobs, **kw)
				out.bump("layout." + lay)
			try:
				with numpy.errstate(all="ignore"):
					sim, res = self._sim_call(plan, fn, stale_pool=stale)
			except SimAbort as e:
				out.bump("sim.step_cap")
				out.violate("step_cap", "call %d exceeded the step cap: %s" % (ci, e),
					key="step_cap")
				break
			except Exception as e:
				out.violate("raised", "call %d (%s, K=%d, queries=%r) raised %s: %s "
					"although every query alone succeeds" % (ci, call["kind"], K, qs,
					type(e).__name__, e), key=type(e).__name__)
				break
			sim.retire_allocs()
			out.steps += sim.steps
			out.bump("calls")
			if call["kind"] == "tomtom":
				for a, b in list(zip(Qarg, [pool[q] for q in qs])) + list(zip(Targ, Ts)):
					if not numpy.array_equal(numpy.asarray(a).astype("float64"), b):
						out.violate("input_modified", "call %d: tomtom modified one of its "
							"input motifs" % ci, key="input_modified")
						break
			out.bump("calls.kind." + call["kind"])
			out.bump("threads.K=%d" % K)
			out.bump("dist." + plan["dist"]["kind"])
			for k, v in sim.stats.items():
				out.bump(k, v)
			if nn is not None:
				out.bump("calls.n_nearest")
			out.note("interleavings", core.digest_of(sim.trace))
			hist = tuple(tuple(qlens[qs[i]] for i in q) for q in sim.queues_executed)
			out.note("per_thread_length_histories", hist)
			for q in hist:
				if any(q[i] < q[i - 1] for i in range(1, len(q))):
					out.bump("probe.shorter_after_longer_same_thread")
				if any(q[i] > q[i - 1] for i in range(1, len(q))):
					out.bump("probe.longer_after_shorter_same_thread")
			if len(set(sim.picks)) > 1:
				switches = sum(1 for i in range(1, len(sim.picks))
					if sim.picks[i] != sim.picks[i - 1])
				out.bump("probe.context_switches", switches)
				mid = sum(1 for i in range(1, len(sim.trace))
					if sim.trace[i][0] != sim.trace[i - 1][0] and sim.trace[i - 1][2] != -1)
				if mid:
					out.bump("probe.preempted_mid_iteration", mid)
			if (K >= 2 and len(qs) >= 2) or plan["alloc"].get("default") != "zero":
				nontrivial = True
			log.log("call", ci, call["kind"], qs, K, sim.picks, sim.queues_executed)

			# ---- oracle
			if call["kind"] == "annotate":
				idxs, pv = res
				r_idx = idxs.numpy().astype("int64")
				r_p = pv.numpy()
				log.log("res", r_idx, r_p)
				self._check_nearest(out, ci, call, qs, refs, r_p, r_idx, None, nT, nn)
				continue
			R = res.numpy()
			log.log("res", R)
			kept.append((ci, res, R.tobytes()))
			if nn is None:
				if R.shape != (5, len(qs), nT):
					out.violate("shape", "call %d: result shape %r, expected %r" % (ci,
						R.shape, (5, len(qs), nT)), key="shape")
					continue
				for j, q in enumerate(qs):
					got, want = R[:, j, :], refs[q]
					if got.tobytes() == want.tobytes():
						continue
					diff = numpy.array([[got[p, t].tobytes() != want[p, t].tobytes()
						for t in range(nT)] for p in range(5)])
					planes = [PLANES[p] for p in range(5) if diff[p].any()]
					cells = [int(t) for t in range(nT) if diff[:, t].any()]
					zero = all(float(want[1, t]) == 0.0 for t in cells)
					t0 = cells[0]
					out.violate("row_differs", "call %d (K=%d, dist=%s, poison=%s, "
						"queries=%r lens=%r): row %d (pool query %d, len %d) differs from "
						"its single-query reference in planes %s at targets %r; e.g. "
						"target %d got %r want %r" % (ci, K, plan["dist"]["kind"],
						plan["alloc"].get("default"), qs, [qlens[q] for q in qs], j, q,
						qlens[q], planes, cells, t0, got[:, t0].tolist(),
						want[:, t0].tolist()),
						key={"ref_best_score_zero": bool(zero)}, planes=planes,
						K=K, poison=plan["alloc"].get("default"))
					break
			else:
				if R.shape != (6, len(qs), nn):
					out.violate("shape", "call %d: n_nearest result shape %r, expected "
						"%r" % (ci, R.shape, (6, len(qs), nn)), key="shape")
					continue
				self._check_nearest(out, ci, call, qs, refs, R[0], R[5].astype("int64"),
					R, nT, nn)
		for ci_, obj, b in kept:
			if obj.numpy().tobytes() != b:
				out.violate("earlier_result_mutated", "the tensor returned by call %d was "
					"changed by a later call in the same session" % ci_, key="mutated")
				break
		out.nontrivial = nontrivial
		out.digest = log.digest()
		out.sample = {"leg": "sim", "seed": case.get("seed"), "n_targets": nT,
			"query_lengths": qlens, "cfg": case["cfg"], "calls": [{"kind": c["kind"],
			"queries": c["queries"], "K": c["plan"]["K"], "dist": c["plan"]["dist"],
			"poison": c["plan"]["alloc"]["default"], "n_nearest": c["n_nearest"]}
			for c in case["calls"]]}
		return out

	def _check_nearest(self, out, ci, call, qs, refs, r_p, r_idx, R, nT, nn):
		for j, q in enumerate(qs):
			want = refs[q]
			wp = want[0]
			if numpy.isnan(wp).any():
				out.bump("nearest.skipped_nan_reference")
				continue
			p, idx = r_p[j], r_idx[j]
			msg = None
			if len(set(idx.tolist())) != len(idx) or idx.min() < 0 or idx.max() >= nT:
				msg = "indices %r are not distinct targets in range" % idx.tolist()
			elif any(p[i].tobytes() != wp[idx[i]].tobytes() for i in range(nn)):
				msg = "returned p-values %r are not the reference p-values of the " \
					"returned indices %r (%r)" % (p.tolist(), idx.tolist(),
					wp[idx].tolist())
			elif any(p[i] > p[i + 1] for i in range(nn - 1)):
				msg = "p-values not ascending: %r" % p.tolist()
			elif numpy.sort(p).tobytes() != numpy.sort(wp)[:nn].tobytes():
				msg = "returned p-values %r are not the %d smallest of the full row %r" \
					% (p.tolist(), nn, numpy.sort(wp).tolist())
			elif R is not None:
				for pl in range(1, 5):
					if any(R[pl, j, i].tobytes() != want[pl, idx[i]].tobytes()
							for i in range(nn)):
						msg = "field %s of the returned targets %r is %r, reference %r" % (
							PLANES[pl], idx.tolist(), R[pl, j].tolist(),
							want[pl, idx].tolist())
						break
			if msg:
				zero = bool((want[1] == 0).any())
				out.violate("nearest_wrong", "call %d (%s, K=%d, poison=%s, queries=%r, "
					"n_nearest=%d) row %d (pool query %d): %s" % (ci, call["kind"],
					call["plan"]["K"], call["plan"]["alloc"].get("default"), qs, nn, j, q,
					msg), key={"ref_has_zero_score": zero})
				return

	# -- real threads ----------------------------------------------------------
	def _run_real(self, case):
		import numba
		out = core.Outcome()
		log = core.EventLog()
		Ts, pool = self._arrays(case)
		nT = len(Ts)
		tt = self.tt
		log.log("world", case["targets"], case["pool"], case["cfg"])
		refs, bad = {}, set()
		dependent = False
		with numpy.errstate(all="ignore"):
			for qi in range(len(pool)):
				try:
					refs[qi] = self._reference(case, qi)
				except (ZeroDivisionError, ValueError, FloatingPointError):
					bad.add(qi)
			# scratch dependence is the simulated leg's to report: do not let
			# the uncontrolled leg flake on it
			ok = [q for q in range(len(pool)) if q in refs]
			if self._st is not None and ok:
				for poison in ("nan", "huge"):
					plan = {"K": 1, "dist": {"kind": "one", "tid": 0},
						"alloc": {"default": poison}}
					try:
						sim, res = self._sim_call(plan, lambda: tt.tomtom(
							[pool[q] for q in ok], Ts, **case["cfg"]))
						R = res.numpy()
						for j, q in enumerate(ok):
							if R[:, j, :].tobytes() != refs[q].tobytes():
								dependent = True
					except Exception:
						dependent = True
		if dependent:
			out.skipped = "real leg skipped: simulated leg sees scratch dependence"
			out.digest = log.digest()
			return out
		nn = case.get("n_nearest")
		first = {}
		nthreads0 = numba.get_num_threads()
		for lst in case["lists"]:
			qs = [q for q in lst if q in refs]
			if not qs:
				continue
			for nj in case["n_jobs"]:
				if nj > numba.config.NUMBA_NUM_THREADS:
					continue
				for ch in case["chunks"]:
					numba.set_parallel_chunksize(ch)
					try:
						with numpy.errstate(all="ignore"):
							res = tt.tomtom([pool[q] for q in qs], Ts, n_nearest=nn,
								n_jobs=nj, **case["cfg"]).numpy()
					finally:
						numba.set_parallel_chunksize(0)
					out.bump("real.calls")
					out.bump("real.n_jobs=%d" % nj)
					out.steps += len(qs)
					if numba.get_num_threads() != nthreads0:
						out.bump("probe.real.thread_count_not_restored")
						numba.set_num_threads(nthreads0)
					for j, q in enumerate(qs):
						row = res[:, j, :]
						if nn is None:
							if q not in first:
								first[q] = (row.copy(), nj, ch, len(qs))
								if row.tobytes() != refs[q].tobytes():
									out.bump("probe.real.compiled_differs_from_interpreted")
							elif first[q][0].tobytes() != row.tobytes():
								out.violate("real_row_differs", "compiled tomtom: pool "
									"query %d gives different rows for (n_jobs=%d, chunk=%d,"
									" %d queries) and (n_jobs=%d, chunk=%d, %d queries): %r "
									"vs %r" % (q, first[q][1], first[q][2], first[q][3], nj,
									ch, len(qs), first[q][0].tolist(), row.tolist()),
									key="real")
								out.digest = log.digest()
								return out
						else:
							o2 = core.Outcome()
							self._check_nearest(o2, 0, {"kind": "tomtom(real)", "plan":
								{"K": nj, "alloc": {}}}, [q], refs, row[0][None],
								row[5].astype("int64")[None], row[:, None, :], nT, nn)
							if o2.violations:
								v = o2.violations[0]
								out.violate("real_nearest_wrong", v.detail, key="real")
								out.digest = log.digest()
								return out
					log.log("real", qs, nj, ch, res)
		out.nontrivial = True
		out.digest = log.digest()
		out.sample = {"leg": "real", "seed": case.get("seed"), "lists": case["lists"],
			"n_jobs": case["n_jobs"], "chunks": case["chunks"], "n_nearest": nn}
		return out

	# -- minimisation ---------------------------------------------------------
	def minimise(self, case, klass, key):
		if case["leg"] != "sim":
			return case
		b = minimise.Budget(150)
		test = lambda c: self.still_fails(c, klass, key)
		case = copy.deepcopy(case)
		case = minimise.ddmin_list(case, ["calls"], test, b, min_len=1)
		for ci in range(len(case["calls"])):
			case = minimise.ddmin_list(case, ["calls", ci, "queries"], test, b,
				min_len=1)
		# fewer targets
		case = minimise.ddmin_list(case, ["targets"], test, b, min_len=1,
			fix=self._fix_nn)
		for ci in range(len(case["calls"])):
			case = minimise.shrink_int(case, ["calls", ci, "plan", "K"], test, b, lo=1)
			case = minimise.try_values(case, ["calls", ci, "plan", "alloc"],
				[{"default": "zero"}, {"default": "nan"}, {"default": "huge"}], test, b)
			case = minimise.try_values(case, ["calls", ci, "plan", "dist"],
				[{"kind": "static_block"}], test, b)
			case = minimise.try_values(case, ["calls", ci, "plan", "sched"],
				[{"seed": 0, "stick": 1.0}], test, b)
		# record the executed schedule explicitly in the replay file
		try:
			self._record_schedule(case)
		except Exception:
			pass
		return case

	@staticmethod
	def _fix_nn(case):
		nT = len(case["targets"])
		for c in case["calls"]:
			if c["n_nearest"] is not None and c["n_nearest"] > nT:
				c["n_nearest"] = nT
		return case

	def _record_schedule(self, case):
		"""Re-run and store the executed queues / picks as explicit schedule."""
		Ts, pool = self._arrays(case)
		stale = {}
		refs = {}
		for call in case["calls"]:
			qs = []
			for q in call["queries"]:
				if q not in refs:
					try:
						refs[q] = self._reference(case, q)
					except Exception:
						refs[q] = None
				if refs[q] is not None:
					qs.append(q)
			if not qs:
				continue
			try:
				sim, res = self._sim_call(call["plan"], lambda: self.tt.tomtom(
					[pool[q] for q in qs], Ts, n_nearest=call["n_nearest"],
					**case["cfg"]), stale_pool=stale)
			except Exception:
				return
			sim.retire_allocs()
			call["plan"]["executed_trace"] = sim.picks
			call["plan"]["executed_queues"] = sim.queues_executed

	def extra_coverage(self, agg, tier):
		return {"steppable_shape": getattr(self._st, "shape", None),
			"preemption_lines_in_prange_body": getattr(self._st, "body_lines", None),
			"fault_kinds": ["alloc.zero", "alloc.nan", "alloc.huge", "alloc.neg",
				"alloc.rand", "alloc.stale", "threads.K", "dist.static_block",
				"dist.cyclic", "dist.dynamic", "dist.one", "sched.interleaving"]}


CHECK = C13()
