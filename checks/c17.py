"""C17 -- GC-matched background loci are valid, disjoint from the input, GC-balanced
and independent of the worker pool.

The process pool of match.extract_matching_loci is replaced by a simulated pool
(seeded worker count, task start/completion order, worker failure); the genome,
bigWig and BED inputs are generated files.  Every execution is checked against
a relation oracle recomputed from the generated genome, and all executions of a
world (simulated schedules, joblib with n_jobs=1, and -- leg 'realpool' -- the
real loky pool with n_jobs 1..3) must return the same DataFrame.
"""

import copy
import os

import numpy

from simkit import core, minimise, repo, runner
from engines import genome


def build_chrom(spec):
	"""Deterministic sequence from block specs [(length, gc, n_frac, lower)]."""
	r = numpy.random.RandomState(spec["seq_seed"] % 2 ** 31)
	parts = []
	for length, gc, nfrac, lower in spec["blocks"]:
		u = r.rand(length)
		v = r.rand(length)
		s = numpy.where(u < gc, numpy.where(v < 0.5, "G", "C"),
			numpy.where(v < 0.5, "A", "T"))
		if nfrac > 0:
			s = numpy.where(r.rand(length) < nfrac, "N", s)
		b = "".join(s.tolist())
		parts.append(b.lower() if lower else b)
	return "".join(parts)


def build_signal(spec, L):
	r = numpy.random.RandomState((spec["seq_seed"] + 991) % 2 ** 31)
	v = numpy.zeros(L, dtype="float32") + float(spec.get("base", 0.0))
	for _ in range(spec.get("n_bumps", 3)):
		p = r.randint(0, max(1, L))
		q = min(L, p + r.randint(1, 80))
		v[p:q] += float(r.choice([1, 2, 5, 0.5]))
	for _ in range(spec.get("n_gaps", 1)):
		p = r.randint(0, max(1, L))
		q = min(L, p + r.randint(1, spec.get("gap_len", 60)))
		v[p:q] = numpy.nan
	return v


def nan_runs(v):
	runs, i, n = [], 0, len(v)
	while i < n:
		if numpy.isnan(v[i]):
			j = i
			while j < n and numpy.isnan(v[j]):
				j += 1
			runs.append((i, j))
			i = j
		else:
			i += 1
	return runs


class C17(runner.Check):
	prop_id = "C17"
	level = "exploration"
	hang_s = 400
	rule = ("One evaluation = one generated world (2-5 chromosomes built from blocks of "
		"controlled GC 0..1 with N stretches, lower-case runs and a tail shorter than "
		"in_window; 5-200 input loci incl. out-of-bounds, tile-boundary, zero-length and "
		"N-rich ones; seeded in_window 50-500, out_window, gc_bin_width, max_n_perc, "
		"optional bigWig with NaN gaps, chroms given or not, BED file or DataFrame, integer "
		"random_state) run under 3-5 pool schedules (simulated workers 1-4 with seeded "
		"completion order, joblib n_jobs=1; leg 'realpool': the real loky pool with "
		"n_jobs 1-3), leg 'faulty' additionally with a failing worker or a chromosome "
		"missing from the bigWig. Non-trivial: at least one usable input locus and one "
		"eligible background tile; distinct = distinct event-log digests.")
	assumptions = [
		"'touched by an input locus' is read as tiles overlapping [start, end) (a zero-"
		"length locus touches the tile it lies in); the "
		"implementation's more conservative mask (tiles start//w .. end//w) is accepted: "
		"lower bounds use the conservative eligible set, upper bounds / disjointness the "
		"liberal one",
		"'usable input locus' = inside its chromosome at width max(in_window, out_window) "
		"and N fraction below max_n_perc (the implementation's strict reading) for lower "
		"bounds, <= max_n_perc for the upper bound on the result size",
		"GC bins are computed with the documented formula floor((gc + width/2)/width) in "
		"float64, like the implementation",
		"under injected pool/bigWig faults only the per-row clauses (valid tile, unique, "
		"disjoint from inputs, N filter) are required",
	]
	real_vs_stub = {
		"real": ["match.extract_matching_loci and all helpers", "pyfaidx / pyBigWig / "
			"pandas on generated files", "joblib sequential backend (n_jobs=1)", "loky "
			"process pool (leg realpool)"],
		"simulated": ["joblib.Parallel (worker count, completion order, worker failure) "
			"via module attribute match.Parallel"],
	}
	tiers = {
		"quick": {"legs": [("sim", 1500), ("faulty", 400), ("realpool", 10)],
			"wall_cap_s": 900, "fresh_procs": 2, "chunk": 10},
		"thorough": {"legs": [("sim", 300000), ("faulty", 80000), ("realpool", 300)],
			"wall_cap_s": 5400, "fresh_procs": 4, "chunk": 100},
	}

	def prepare(self, tier, fresh=False):
		repo.setup()
		from tangermeme import match
		self.match = match
		import joblib
		self._real_parallel = match.Parallel

	def leg_mode(self, leg):
		return "fresh" if leg == "realpool" else "fork"

	# -- generation ----------------------------------------------------------
	def gen_case(self, leg, seed, tier):
		S = core.Streams(seed)
		r = S("workload")
		w = r.choice([50, 50, 64, 100, 100, 200, 333, 500])
		ow = r.choice([w, w - 1, w // 2, w // 2 + 1, 10])
		use_bw = r.chance(0.45)
		if not use_bw and r.chance(0.25):
			ow = w + r.choice([1, 7, w // 2, w])       # only legal without a bigwig
		chroms = []
		for i in range(r.randint(1, 5)):
			n_tiles = r.randint(2, 40 if w <= 200 else 14)
			L = n_tiles * w + r.randint(0, w - 1)
			blocks, tot = [], 0
			while tot < L:
				bl = min(L - tot, r.choice([w, w, 2 * w, w // 2, 3 * w + 7, w + 13]))
				gc = r.choice([0.0, 0.0, 0.2, 0.35, 0.42, 0.5, 0.5, 0.58, 0.65, 0.8, 1.0])
				nf = r.wchoice([0.0, 0.04, 0.2, 0.6, 1.0], [10, 2, 2, 1, 1])
				blocks.append([bl, gc, nf, r.chance(0.1)])
				tot += bl
			chroms.append({"name": "chr%d" % (i + 1), "length": L, "seq_seed": r.subseed(),
				"blocks": blocks, "n_bumps": r.randint(0, 6), "n_gaps": r.randint(0, 3),
				"gap_len": r.choice([60, 60, 2 * w, 4 * w]),
				"base": r.choice([0.0, 0.0, 0.5, 1.0, 2.0, -1.0, -3.0])})
		loci = []
		n_loci = r.wchoice([r.randint(5, 30), r.randint(30, 200)], [3, 1])
		loci_chroms = r.sample(chroms, r.randint(1, len(chroms)))
		for _ in range(n_loci):
			c = r.choice(loci_chroms)
			L = c["length"]
			kind = r.wchoice(["inside", "boundary", "edge", "zero", "wide", "in_gap"],
				[8, 2, 2, 1, 1, 2 if use_bw else 0])
			if kind == "in_gap":
				runs = nan_runs(build_signal(c, L))
				if runs:
					a, b = r.choice(runs)
					mid = (a + b) // 2
					s = max(0, mid - r.randint(0, 3))
					e = min(L, s + r.randint(1, 6))
				else:
					kind = "inside"
			if kind == "inside":
				s = r.randint(0, L - 1)
				e = min(L, s + r.randint(1, 2 * w))
			elif kind == "in_gap":
				pass
			elif kind == "boundary":
				t = r.randint(1, max(1, L // w))
				e = min(L, t * w)
				s = max(0, e - r.randint(1, w))
			elif kind == "edge":
				if r.chance(0.5):
					s = r.randint(0, w // 2)
					e = s + r.randint(1, 20)
				else:
					e = L - r.randint(0, w // 2)
					s = max(0, e - r.randint(1, 20))
			elif kind == "zero":
				s = e = r.randint(0, L - 1)
			else:
				s = r.randint(0, L - 1)
				e = min(L, s + r.randint(w, 3 * w))
			loci.append([c["name"], int(s), int(max(s, e))])
			if r.chance(0.05):
				loci.append([c["name"], int(s), int(max(s, e))])     # duplicate input locus
		kw = {"in_window": w, "out_window": ow,
			"max_n_perc": r.choice([0.0, 0.05, 0.1, 0.1, 0.3, 0.5, 1.0]),
			"gc_bin_width": r.choice([0.01, 0.02, 0.02, 0.05, 0.1, 0.03, 0.07]),
			"signal_beta": r.choice([0.5, 1.0, 2.0]) if use_bw else 0.5,
			"chroms": None if r.chance(0.5) else [c["name"] for c in r.sample(chroms,
				r.randint(1, len(chroms)))],
			"random_state": r.randint(0, 10 ** 6)}
		p = S("schedule")
		execs = [{"pool": "sim", "W": 1, "seed": 0}]
		for _ in range(r.randint(2, 3)):
			execs.append({"pool": "sim", "W": p.randint(1, 4), "seed": p.subseed(),
				"deal": p.choice(["rr", "random"])})
		execs.append({"pool": "joblib1"})
		case = {"leg": leg, "seed": seed, "chroms": chroms, "loci": loci, "kw": kw,
			"bigwig": use_bw, "loci_as": r.choice(["df", "bed"]), "execs": execs,
			"df_extra": r.chance(0.4), "chroms_as": r.choice(["list", "tuple"]),
			"seed_type": r.wchoice(["int", "numpy.int64"], [4, 1])}
		if leg == "realpool":
			case["execs"] = [{"pool": "sim", "W": 1, "seed": 0}] + [
				{"pool": "loky", "n_jobs": nj} for nj in (1, 2, 3)] + [
				{"pool": "subproc", "hashseed": p.randint(1, 10 ** 6)} for _ in range(2)]
		elif leg == "sim" and r.chance(0.04):
			case["execs"].append({"pool": "subproc", "hashseed": p.randint(1, 10 ** 6)})
		if leg == "faulty":
			f = S("faults")
			kind = f.choice(["pool.fail", "env.missing_chrom"] if (use_bw and len(chroms) > 1)
				else ["pool.fail"])
			case["fault"] = {"kind": kind, "pick": f.randint(0, 10)}
		return case

	# -- oracle --------------------------------------------------------------
	def _oracle(self, case, seqs, sigs, missing_bw_chrom=None):
		kw = case["kw"]
		w, ow, bw, mn = kw["in_window"], kw["out_window"], kw["gc_bin_width"], \
			kw["max_n_perc"]
		loci = case["loci"]
		loci_chroms = sorted(set(l[0] for l in loci))
		chroms = kw["chroms"] if kw["chroms"] is not None else loci_chroms
		W = max(w, ow)
		valid = []
		for name, s, e in loci:
			mid = s + (e - s) // 2
			a, b = mid - W // 2, mid + (W + 1) // 2
			if a >= 0 and b <= len(seqs[name]):
				valid.append((name, mid))
		thr = None
		if case["bigwig"]:
			sums = []
			for name, mid in valid:
				a, b = mid - ow // 2, mid + (ow + 1) // 2
				if name == missing_bw_chrom:
					sums.append(numpy.nan)
					continue
				v = sigs[name][a:b].astype("float64")
				sums.append(float(numpy.nansum(v)) if not numpy.all(numpy.isnan(v)) else 0.0)
			with numpy.errstate(all="ignore"):
				import warnings
				with warnings.catch_warnings():
					warnings.simplefilter("ignore")
					rm = numpy.nanquantile(numpy.array(sums, dtype=float), 0.01).item() \
						if sums else float("nan")
			thr = rm * kw["signal_beta"]
		n_bins = int(1. / bw) + 1
		strict = numpy.zeros(n_bins + 2, dtype=int)
		n_strict = n_loose = 0
		for name, mid in valid:
			a, b = mid - w // 2, mid + (w + 1) // 2
			sq = seqs[name][a:b].upper()
			nf = sq.count("N") / len(sq)
			gc = (sq.count("G") + sq.count("C")) / len(sq)
			if nf <= mn:
				n_loose += 1
			if nf < mn:
				n_strict += 1
				strict[int((gc + bw / 2.) // bw)] += 1
		touched_loose = {c: set() for c in chroms}
		touched_impl = {c: set() for c in chroms}
		for name, s, e in loci:
			if name not in touched_loose:
				continue
			if e > s:
				touched_loose[name].update(range(s // w, (e - 1) // w + 1))
			else:
				touched_loose[name].add(s // w)       # a summit-style locus [p, p)
			touched_impl[name].update(range(s // w, e // w + 1))
		tiles = {}
		el_plus = numpy.zeros(n_bins + 2, dtype=int)
		el_minus = numpy.zeros(n_bins + 2, dtype=int)
		left, right = (w - ow) // 2, (w - ow + 1) // 2
		for c in chroms:
			sq = seqs[c].upper()
			for t in range(len(sq) // w):
				tile = sq[t * w:(t + 1) * w]
				nf = tile.count("N") / w
				gc = (tile.count("G") + tile.count("C")) / w
				b = int((gc + bw / 2.) // bw)
				ssum = None
				ok = nf <= mn
				if case["bigwig"]:
					if c == missing_bw_chrom:
						ok = False
						ssum = float("nan")
					else:
						v = sigs[c][t * w + left:(t + 1) * w - right].astype("float64")
						ssum = float(numpy.nansum(v))
						ok = ok and (thr == thr) and ssum <= thr
				tiles[(c, t)] = {"n": nf, "bin": b, "sum": ssum, "ok": ok}
				if ok and t not in touched_loose[c]:
					el_plus[b] += 1
				if ok and t not in touched_impl[c]:
					el_minus[b] += 1
		return {"tiles": tiles, "thr": thr, "strict": strict, "n_strict": n_strict,
			"n_loose": n_loose, "el_plus": el_plus, "el_minus": el_minus,
			"touched_loose": touched_loose, "chroms": chroms, "n_valid": len(valid)}

	def _check_rows(self, out, case, orc, rows, where, seqs, relaxed=False):
		kw = case["kw"]
		w, mn = kw["in_window"], kw["max_n_perc"]
		seen = set()
		per_bin = numpy.zeros(len(orc["strict"]), dtype=int)
		for chrom, s, e in rows:
			d = None
			t = s // w
			if chrom not in seqs or s % w != 0 or e != s + w or s < 0 or e > len(seqs[chrom]):
				d = ("invalid_tile", "row (%s, %d, %d) is not an in_window-aligned tile "
					"inside its chromosome (in_window=%d, length %s)" % (chrom, s, e, w,
					len(seqs[chrom]) if chrom in seqs else None))
			elif (chrom, s) in seen:
				d = ("duplicate_row", "tile (%s, %d, %d) is returned twice" % (chrom, s, e))
			elif chrom not in orc["touched_loose"]:
				d = ("foreign_chromosome", "tile (%s, %d, %d) lies on a chromosome that was "
					"not requested (chroms=%r)" % (chrom, s, e, orc["chroms"]))
			elif t in orc["touched_loose"][chrom]:
				d = ("overlaps_input", "tile (%s, %d, %d) is touched by an input locus" % (
					chrom, s, e))
			else:
				ti = orc["tiles"][(chrom, t)]
				if ti["n"] > mn:
					d = ("n_filter", "tile (%s, %d, %d) has N fraction %.3f > max_n_perc %.3f"
						% (chrom, s, e, ti["n"], mn))
				elif case["bigwig"] and not relaxed and not (ti["sum"] <= orc["thr"]):
					d = ("signal_filter", "tile (%s, %d, %d) has centred out_window signal "
						"%.4g > signal_beta x robust minimum = %.4g (in_window=%d, "
						"out_window=%d)" % (chrom, s, e, ti["sum"], orc["thr"], w,
						kw["out_window"]))
				else:
					per_bin[ti["bin"]] += 1
			if d:
				out.violate(d[0], "%s: %s" % (where, d[1]), key=d[0])
				return None
			seen.add((chrom, s))
		if rows != sorted(rows):
			out.violate("not_sorted", "%s: result is not sorted by (chrom, start)" % where,
				key="not_sorted")
			return None
		return per_bin

	def _check_balance(self, out, case, orc, rows, per_bin, where):
		n = len(rows)
		if n > orc["n_loose"]:
			out.violate("too_many", "%s: %d loci returned for %d usable input loci" % (
				where, n, orc["n_loose"]), key="too_many")
			return
		for b in range(len(per_bin)):
			lo = min(orc["strict"][b], orc["el_minus"][b])
			if per_bin[b] < lo:
				out.violate("bin_underfilled", "%s: GC bin %d holds %d input loci and %d "
					"eligible background tiles but only %d were chosen" % (where, b,
					orc["strict"][b], orc["el_minus"][b], per_bin[b]), key="bin_underfilled")
				return
			if per_bin[b] > orc["el_plus"][b]:
				out.violate("bin_overfilled", "%s: GC bin %d: %d chosen but only %d eligible"
					% (where, b, per_bin[b], orc["el_plus"][b]), key="bin_overfilled")
				return
		tot_minus = int(orc["el_minus"].sum())
		if n < min(orc["n_strict"], tot_minus):
			left = [int(b) for b in range(len(per_bin)) if orc["el_minus"][b] > per_bin[b]]
			out.violate("unmatched_while_background_left", "%s: %d usable input loci, %d "
				"eligible background tiles, but only %d matched; eligible background "
				"remains in GC bins %r" % (where, orc["n_strict"], tot_minus, n, left),
				key={"only_bin0_left": left == [0]})

	# -- execution -----------------------------------------------------------
	def run_case(self, case):
		import pandas
		from engines.parsim import SimPool, PoolWorkerFailed
		out = core.Outcome()
		log = core.EventLog()
		kw = case["kw"]
		log.log("world", case["chroms"], case["loci"], kw, case["bigwig"])
		seqs = {c["name"]: build_chrom(c) for c in case["chroms"]}
		sigs = {c["name"]: build_signal(c, c["length"]) for c in case["chroms"]} \
			if case["bigwig"] else None
		scratch = repo.scratch_dir()
		tag = "c17_%d_%d" % (os.getpid(), case.get("seed", 0))
		fa = os.path.join(scratch, tag + ".fa")
		genome.write_fasta(fa, [(c["name"], seqs[c["name"]]) for c in case["chroms"]],
			width=80)
		paths = [fa, fa + ".fai"]
		fault = case.get("fault")
		missing = None
		bwp = None
		if case["bigwig"]:
			bwp = os.path.join(scratch, tag + ".bw")
			sizes = [(c["name"], c["length"]) for c in case["chroms"]]
			if fault and fault["kind"] == "env.missing_chrom":
				missing = case["chroms"][fault["pick"] % len(case["chroms"])]["name"]
				sizes = [s for s in sizes if s[0] != missing]
				out.bump("fault.env.missing_chrom")
			genome.write_bigwig(bwp, sizes, sigs)
			paths.append(bwp)
		if case["loci_as"] == "bed":
			lp = os.path.join(scratch, tag + ".bed")
			genome.write_bed(lp, case["loci"])
			paths.append(lp)
			loci_arg = lp
		else:
			loci_arg = pandas.DataFrame(case["loci"], columns=["chrom", "start", "end"])
			if case.get("df_extra"):
				loci_arg["name"] = ["p%d" % k for k in range(len(loci_arg))]
				loci_arg["score"] = 1.5
				loci_arg.index = [7 + 2 * k for k in range(len(loci_arg))][::-1]
		orc = self._oracle(case, seqs, sigs, missing_bw_chrom=missing)
		first = None
		try:
			for ei, ex in enumerate(case["execs"]):
				plan = dict(ex)
				failing = bool(fault and fault["kind"] == "pool.fail" and ei == 1
					and ex["pool"] == "sim")
				if failing:
					plan["fail_task"] = fault["pick"]
				where = "execution %d (%s)" % (ei, ", ".join("%s=%s" % kv for kv in
					sorted(plan.items())))
				pool = SimPool(plan)
				if ex["pool"] == "subproc":
					# the same call in a fresh interpreter under another string-hash seed
					import pickle, subprocess, sys as _sys
					fin = os.path.join(scratch, tag + ".sub.in")
					fout = os.path.join(scratch, tag + ".sub.out")
					kw_ = dict(in_window=kw["in_window"], out_window=kw["out_window"],
						max_n_perc=kw["max_n_perc"], gc_bin_width=kw["gc_bin_width"],
						bigwig=bwp, signal_beta=kw["signal_beta"], chroms=kw["chroms"],
						random_state=kw["random_state"])
					with open(fin, "wb") as f_:
						pickle.dump({"loci": loci_arg if isinstance(loci_arg, str) else
							{"rows": case["loci"]}, "fasta": fa, "kw": kw_}, f_)
					env = dict(os.environ, PYTHONHASHSEED=str(ex["hashseed"]))
					subprocess.run([_sys.executable, "-B", os.path.join(repo.VERIF, "engines",
						"c17sub.py"), fin, fout], env=env, capture_output=True, timeout=300)
					res_ = pickle.load(open(fout, "rb")) if os.path.exists(fout) else \
						{"error": "helper produced no output"}
					for p_ in (fin, fout):
						try:
							os.remove(p_)
						except OSError:
							pass
					out.bump("exec.subproc_other_hashseed")
					out.steps += 1
					if "error" in res_:
						out.violate("raised", "%s: extract_matching_loci in a fresh interpreter "
							"%s" % (where, res_["error"]), key="subproc")
						break
					rows = res_["rows"]
					log.log("exec", ei, plan, rows)
					if first is not None and rows != first[0]:
						a, b = set(first[0]), set(rows)
						out.violate("schedule_dependent", "%s (a fresh interpreter with "
							"PYTHONHASHSEED=%d) returns a different result than %s for the same "
							"random_state=%d: %d vs %d rows, %d in common" % (where, ex["hashseed"],
							first[1], kw["random_state"], len(rows), len(first[0]), len(a & b)),
							key="hashseed")
						break
					continue
				if ex["pool"] == "sim":
					self.match.Parallel = pool.factory()
					n_jobs = ex["W"]
				else:
					self.match.Parallel = self._real_parallel
					n_jobs = 1 if ex["pool"] == "joblib1" else ex["n_jobs"]
				status = "returned"
				try:
					with numpy.errstate(all="ignore"):
						import warnings
						with warnings.catch_warnings():
							warnings.simplefilter("ignore")
							df = self.match.extract_matching_loci(
								loci_arg if isinstance(loci_arg, str) else loci_arg.copy(), fa,
								in_window=kw["in_window"], out_window=kw["out_window"],
								max_n_perc=kw["max_n_perc"], gc_bin_width=kw["gc_bin_width"],
								bigwig=bwp, signal_beta=kw["signal_beta"],
								chroms=(tuple(kw["chroms"]) if (kw["chroms"] is not None and
									case.get("chroms_as") == "tuple") else kw["chroms"]),
								random_state=(numpy.int64(kw["random_state"]) if
									case.get("seed_type") == "numpy.int64" else kw["random_state"]),
								n_jobs=n_jobs)
				except PoolWorkerFailed:
					status = "raised:PoolWorkerFailed"
				except Exception as e:
					status = "raised:%s: %s" % (type(e).__name__, str(e)[:200])
				finally:
					self.match.Parallel = self._real_parallel
				out.steps += 1 + sum(c["n_tasks"] for c in pool.calls)
				for k, v in pool.stats.items():
					out.bump(k, v)
				out.bump("exec." + ex["pool"])
				if failing:
					if status == "returned":
						out.bump("probe.worker_failure_swallowed")
					else:
						out.bump("fault.pool.fail.surfaced")
						continue
				if status != "returned":
					out.violate("raised", "%s: extract_matching_loci %s (kw=%r)" % (where,
						status, kw), key=status.split(":")[1])
					break
				rows = [(str(c), int(s), int(e)) for c, s, e in zip(df["chrom"].tolist(),
					df["start"].tolist(), df["end"].tolist())]
				log.log("exec", ei, plan, rows)
				relaxed = bool(fault)
				per_bin = self._check_rows(out, case, orc, rows, where, seqs,
					relaxed=bool(missing))
				if per_bin is None:
					break
				if not relaxed:
					self._check_balance(out, case, orc, rows, per_bin, where)
					if out.violations:
						break
				if failing:
					continue
				if first is None:
					first = (rows, where)
				elif rows != first[0]:
					a, b = set(first[0]), set(rows)
					out.violate("schedule_dependent", "%s returns a different result than %s "
						"for the same random_state=%d: %d vs %d rows, %d in common" % (where,
						first[1], kw["random_state"], len(rows), len(first[0]), len(a & b)),
						key="schedule")
					break
		finally:
			for p in paths:
				try:
					os.remove(p)
				except OSError:
					pass
		out.bump("world.inputs_usable", orc["n_strict"])
		out.bump("world.eligible_tiles", int(orc["el_minus"].sum()))
		if orc["n_strict"] > int(orc["el_minus"].sum()) > 0:
			out.bump("probe.background_exhausted_world")
		if any(orc["strict"][b] > orc["el_minus"][b] for b in range(len(orc["strict"]))):
			out.bump("probe.world_needs_spill_to_other_bins")
		if orc["el_minus"][0] > 0:
			out.bump("probe.eligible_background_in_bin0")
		out.nontrivial = orc["n_strict"] > 0 and int(orc["el_minus"].sum()) > 0
		out.digest = log.digest()
		out.sample = {"leg": case["leg"], "seed": case.get("seed"), "kw": kw,
			"chrom_lengths": [c["length"] for c in case["chroms"]], "n_loci":
			len(case["loci"]), "bigwig": case["bigwig"], "execs": case["execs"],
			"fault": fault, "n_returned": len(first[0]) if first else None}
		return out

	def minimise(self, case, klass, key):
		b = minimise.Budget(80)
		test = lambda c: self.still_fails(c, klass, None)
		case = copy.deepcopy(case)
		case = minimise.ddmin_list(case, ["loci"], test, b, min_len=1)
		if klass != "schedule_dependent":
			case = minimise.ddmin_list(case, ["execs"], test, b, min_len=1)
		return case

	def extra_coverage(self, agg, tier):
		return {"fault_kinds": ["pool.order (seeded completion order)", "pool.n_jobs / "
			"simulated workers 1-4", "pool.deal rr|random", "pool.fail(task)",
			"env.missing_chrom (bigWig)", "env.nan_signal (NaN gaps in every bigWig)",
			"io.backend BED|DataFrame"]}


CHECK = C17()
