"""Locate and import tangermeme from the working tree under test.

VERIF_REPO (default /repo) is put first on sys.path so that the *current working
tree* is what runs -- never an installed copy, never a snapshot.  Compiled numba
artefacts are kept out of the tree by NUMBA_CACHE_DIR (set by ./check to a
fresh scratch directory that is removed when the check exits).
"""

import atexit
import os
import shutil
import sys
import tempfile

REPO = os.environ.get("VERIF_REPO", "/repo")
VERIF = os.path.dirname(os.path.dirname(os.path.abspath(__file__)))

_scratch = None


def scratch_dir():
	"""Per-invocation scratch directory (never under /repo or /verif)."""
	global _scratch
	if _scratch is None:
		d = os.environ.get("VERIF_SCRATCH")
		if d and os.path.isdir(d):
			_scratch = d
		else:
			base = "/dev/shm" if os.access("/dev/shm", os.W_OK) else None
			_scratch = tempfile.mkdtemp(prefix="tmverif.", dir=base)
			os.environ["VERIF_SCRATCH"] = _scratch
			atexit.register(shutil.rmtree, _scratch, True)
		if "NUMBA_CACHE_DIR" not in os.environ:
			os.environ["NUMBA_CACHE_DIR"] = os.path.join(_scratch, "nbcache")
	return _scratch


def setup(single_thread=True):
	"""Make `import tangermeme` resolve to the tree under test."""
	scratch_dir()
	os.environ.setdefault("TQDM_DISABLE", "1")
	if REPO not in sys.path[:1]:
		sys.path.insert(0, REPO)
	for name in list(sys.modules):
		if name == "tangermeme" or name.startswith("tangermeme."):
			f = getattr(sys.modules[name], "__file__", "") or ""
			if not f.startswith(REPO):
				del sys.modules[name]
	import tangermeme
	f = os.path.realpath(tangermeme.__file__)
	if not f.startswith(os.path.realpath(REPO)):
		raise RuntimeError("tangermeme imported from %s, not from %s" % (f, REPO))
	numba_seed(0)        # compile the seeding helper once, before any fork
	if single_thread:
		import torch
		try:
			torch.set_num_threads(1)
			torch.set_num_interop_threads(1)
		except RuntimeError:
			pass
	return tangermeme


def tree_id():
	"""Short description of the tree under test for the evidence file."""
	import subprocess
	try:
		head = subprocess.run(["git", "-C", REPO, "rev-parse", "--short", "HEAD"],
			capture_output=True, text=True, timeout=20).stdout.strip()
		dirty = subprocess.run(["git", "-C", REPO, "status", "--porcelain",
			"--untracked-files=no"], capture_output=True, text=True,
			timeout=20).stdout.strip()
		return head + ("+dirty" if dirty else "")
	except Exception:
		return "unknown"


_NB_SEED = None


def numba_seed(s):
	"""Seed numba's own (per-thread) generator of the calling thread.  numba
	re-seeds it from OS entropy in every new thread and after every fork, so it
	is a nondeterminism source the simulator has to pin explicitly."""
	global _NB_SEED
	if _NB_SEED is None:
		import numba
		import numpy

		@numba.njit
		def _seed(x):
			numpy.random.seed(x)
		_NB_SEED = _seed
	_NB_SEED(int(s) % (2 ** 32 - 1))
