"""simkit.core -- seeded decision streams, event log / digest, outcome records.

Everything a simulated run decides is derived from one integer.  A *case* is a
JSON-serialisable dict produced by ``gen_case(seed, tier)`` of a check; it is the
complete description of one simulated run (workload, schedule, fault plan) and is
what gets written to a replay file.  ``run_case(case)`` must be a pure function
of the case and of the code under /repo.
"""

import hashlib
import json
import random
import struct

import numpy


def derive_seed(seed, *names):
	"""A 63-bit integer derived from ``seed`` and a stream name (stable across
	processes and PYTHONHASHSEED values)."""
	h = hashlib.sha256(("%d|" % int(seed) + "|".join(str(n) for n in names))
		.encode()).digest()
	return int.from_bytes(h[:8], "big") >> 1


class Stream(object):
	"""A named sub-stream of the run's PRNG.  Thin wrapper over random.Random
	(Mersenne Twister) so that no choice depends on hash order or numpy's
	global state."""

	def __init__(self, seed, name):
		self.name = name
		self._r = random.Random(derive_seed(seed, name))

	def randint(self, lo, hi):
		"""Uniform integer in [lo, hi] inclusive."""
		return self._r.randint(lo, hi)

	def choice(self, options):
		options = list(options)
		return options[self._r.randrange(len(options))]

	def wchoice(self, options, weights):
		return self._r.choices(list(options), weights=list(weights), k=1)[0]

	def random(self):
		return self._r.random()

	def chance(self, p):
		return self._r.random() < p

	def shuffle(self, xs):
		xs = list(xs)
		self._r.shuffle(xs)
		return xs

	def sample(self, xs, k):
		return self._r.sample(list(xs), k)

	def subseed(self):
		return self._r.getrandbits(31)

	def nprng(self):
		return numpy.random.RandomState(self.subseed())


class Streams(object):
	"""Factory of independent named streams for one seed."""

	def __init__(self, seed):
		self.seed = int(seed)
		self._cache = {}

	def __call__(self, name):
		if name not in self._cache:
			self._cache[name] = Stream(self.seed, name)
		return self._cache[name]


def _canon(obj):
	"""Canonical bytes of an object for digests (NaN-safe, dtype-aware)."""
	if isinstance(obj, numpy.ndarray):
		return (b"nd" + str(obj.dtype).encode() + str(obj.shape).encode() +
			numpy.ascontiguousarray(obj).tobytes())
	if isinstance(obj, (bytes, bytearray)):
		return b"b" + bytes(obj)
	if isinstance(obj, float):
		return b"f" + struct.pack(">d", obj)
	if isinstance(obj, (list, tuple)):
		return b"l(" + b",".join(_canon(o) for o in obj) + b")"
	if isinstance(obj, dict):
		return b"d(" + b",".join(_canon(k) + b":" + _canon(obj[k])
			for k in sorted(obj, key=str)) + b")"
	try:
		import torch
		if isinstance(obj, torch.Tensor):
			t = obj.detach().cpu()
			if t.dtype == torch.bfloat16:
				return b"bf16" + _canon(t.to(torch.float32).numpy())
			return _canon(t.numpy())
	except ImportError:
		pass
	if isinstance(obj, numpy.generic):
		return _canon(obj.item())
	return repr(obj).encode()


class EventLog(object):
	"""Append-only event log of one simulated run.  Its digest is the
	fingerprint used by the determinism self-tests and replay confirmation.
	Logging never draws randomness and never reads a clock."""

	def __init__(self, keep=False):
		self._h = hashlib.sha256()
		self.n = 0
		self.keep = keep
		self.events = []

	def log(self, *event):
		self._h.update(_canon(event))
		self._h.update(b";")
		self.n += 1
		if self.keep:
			self.events.append(event)

	def digest(self):
		return self._h.hexdigest()


def digest_of(obj):
	return hashlib.sha256(_canon(obj)).hexdigest()


class Violation(object):
	"""One property violation found in a simulated run."""

	def __init__(self, klass, detail, signature=None):
		self.klass = klass            # short stable class name, e.g. 'row_differs'
		self.detail = detail          # human-readable
		self.signature = signature or {}   # facts used to match known findings

	def to_json(self):
		return {"class": self.klass, "detail": self.detail,
			"signature": self.signature}


class Outcome(object):
	"""Result of run_case: violations, digest, stats counters, sample info."""

	def __init__(self):
		self.violations = []
		self.digest = None
		self.stats = {}          # name -> int (summed across runs)
		self.distinct = {}       # measure name -> list of hashable keys
		self.steps = 0           # simulated scheduler / op steps
		self.nontrivial = True
		self.sample = None
		self.skipped = None      # reason string when the case is outside the domain

	def bump(self, name, k=1):
		self.stats[name] = self.stats.get(name, 0) + k

	def note(self, measure, key):
		self.distinct.setdefault(measure, []).append(key)

	def violate(self, klass, detail, **signature):
		self.violations.append(Violation(klass, detail, signature))


def jsonable(obj):
	"""Convert numpy / torch containers into plain JSON types (lossless for the
	small literal tensors stored in cases: floats go through repr round-trip)."""
	if isinstance(obj, dict):
		return {str(k): jsonable(v) for k, v in obj.items()}
	if isinstance(obj, (list, tuple)):
		return [jsonable(v) for v in obj]
	if isinstance(obj, numpy.ndarray):
		return jsonable(obj.tolist())
	if isinstance(obj, numpy.generic):
		return obj.item()
	try:
		import torch
		if isinstance(obj, torch.Tensor):
			return jsonable(obj.detach().cpu().numpy())
	except ImportError:
		pass
	return obj


def dump_json(obj, path):
	with open(path, "w") as f:
		json.dump(jsonable(obj), f, indent=1, sort_keys=True)
		f.write("\n")
