"""simkit.minimise -- delta debugging helpers over JSON-like cases.

All helpers take ``test(case) -> bool`` ("still fails with the same violation
class") and are budget-capped; they never modify their input in place.
"""

import copy


class Budget(object):
	def __init__(self, n=200):
		self.left = n

	def spend(self):
		self.left -= 1
		return self.left >= 0


def get_path(obj, path):
	for p in path:
		obj = obj[p]
	return obj


def set_path(obj, path, value):
	obj = copy.deepcopy(obj)
	cur = obj
	for p in path[:-1]:
		cur = cur[p]
	cur[path[-1]] = value
	return obj


def ddmin_list(case, path, test, budget, min_len=0, fix=None):
	"""Shrink the list at ``path`` (ddmin: remove chunks of decreasing size).
	``fix(case)`` may repair dependent fields after a removal."""
	lst = list(get_path(case, path))
	n = 2
	while len(lst) > min_len and budget.left > 0:
		chunk = max(1, len(lst) // n)
		removed = False
		i = 0
		while i < len(lst) and budget.left > 0:
			cand = lst[:i] + lst[i + chunk:]
			if len(cand) < min_len:
				i += chunk
				continue
			c2 = set_path(case, path, cand)
			if fix is not None:
				c2 = fix(c2)
			if c2 is not None and budget.spend() and test(c2):
				lst = cand
				case = c2
				removed = True
			else:
				i += chunk
		if not removed:
			if chunk == 1:
				break
			n = min(len(lst), n * 2)
	return case


def shrink_int(case, path, test, budget, lo=0):
	"""Move the integer at ``path`` toward ``lo`` (try lo, then bisect)."""
	v = get_path(case, path)
	if not isinstance(v, int) or v <= lo:
		return case
	for cand in (lo, lo + 1):
		if cand < v and budget.spend():
			c2 = set_path(case, path, cand)
			if test(c2):
				return c2
	a, b = lo, v
	while b - a > 1 and budget.left > 0:
		mid = (a + b) // 2
		c2 = set_path(case, path, mid)
		if budget.spend() and test(c2):
			b = mid
			case = c2
		else:
			a = mid
	return case


def try_values(case, path, candidates, test, budget):
	"""Replace the value at ``path`` by the first candidate that still fails."""
	cur = get_path(case, path)
	for cand in candidates:
		if cand == cur:
			return case
		c2 = set_path(case, path, cand)
		if budget.spend() and test(c2):
			return c2
	return case
