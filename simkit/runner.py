"""simkit.runner -- batch driver shared by all checks.

Responsibilities: seed planning, fork pool with hang/crash containment, merging
per-run outcomes, minimisation, fresh-process replay confirmation, known-finding
matching, evidence file, exit codes.

Exit codes: 0 property held on everything explored (KNOWN-FINDING lines allowed)
            1 at least one unlisted, replay-confirmed violation (VIOLATION lines)
            3 harness error / timeout / unreproducible event (never with VIOLATION)
"""

import collections
import faulthandler
import hashlib
import json
import multiprocessing
import os
import pickle
import subprocess
import sys
import time
import traceback
from concurrent.futures import ProcessPoolExecutor, ThreadPoolExecutor
from concurrent.futures.process import BrokenProcessPool

from . import core
from . import repo

VERIF = repo.VERIF
# evidence/ and replays/ live under /verif unless a sensitivity run redirects them
OUT = os.environ.get("VERIF_OUT") or VERIF
MAX_DISTINCT = 3000000


class Agg(object):
	"""Mergeable aggregate of many runs."""

	def __init__(self):
		self.n_runs = 0
		self.n_nontrivial = 0
		self.steps = 0
		self.stats = collections.Counter()
		self.distinct = {}
		self.violations = []      # dicts: leg, seed, case, violations[], digest
		self.samples = []
		self.errors = []          # dicts: leg, seed, traceback
		self.skipped = collections.Counter()
		self.by_leg = collections.Counter()
		self.leg_wall = collections.Counter()
		self.digests = {}         # (leg, seed) -> digest  (only when requested)
		self.nontrivial_keys = set()

	def merge(self, other):
		self.n_runs += other.n_runs
		self.n_nontrivial += other.n_nontrivial
		self.steps += other.steps
		self.stats.update(other.stats)
		for k, v in other.distinct.items():
			s = self.distinct.setdefault(k, set())
			if len(s) < MAX_DISTINCT:
				s.update(v)
		self.violations.extend(other.violations)
		for s in other.samples:
			if len(self.samples) < 6:
				self.samples.append(s)
		self.errors.extend(other.errors)
		self.skipped.update(other.skipped)
		self.by_leg.update(other.by_leg)
		self.leg_wall.update(other.leg_wall)
		self.digests.update(other.digests)
		if len(self.nontrivial_keys) < MAX_DISTINCT:
			self.nontrivial_keys.update(other.nontrivial_keys)


def _h8(key):
	return hashlib.blake2b(repr(key).encode(), digest_size=8).digest()


_CHECK = None
# set in the parent once exploration is over: minimisation, re-execution and the
# pre-confirmation run always happen in a forked child, so that a case which
# crashes the interpreter (or leaks state) cannot take the parent with it
_ALWAYS_ISOLATE = False


def seed_globals(case):
	"""Process-global generators are nondeterminism sources too: pin them to the
	case so that code which (wrongly) reads them still replays exactly."""
	s = core.derive_seed(case.get("seed", 0) if isinstance(case, dict) else 0,
		"globals") % (2 ** 31 - 1)
	import random as _random
	import numpy as _numpy
	_random.seed(s)
	_numpy.random.seed(s)
	try:
		import torch as _torch
		_torch.manual_seed(s)
	except ImportError:
		pass
	repo.numba_seed(s)


def after_fork():
	"""First thing in every forked child, while it is still single-threaded:
	make torch re-create its intra-op thread pool now.  Otherwise the pool is
	re-created lazily by whichever thread touches it first, and a second thread
	(autograd worker, a simulated caller thread) racing with that sees a null
	pool ("Invalid thread pool!") -- a flaky, load-dependent harness failure."""
	if "torch" in sys.modules:
		import torch
		try:
			torch.set_num_threads(1)
		except Exception:
			pass


def run_one(check, case):
	"""Execute one case: in a freshly forked child when the check asks for
	isolation (state leaked by the code under test must not reach the next
	case / the minimiser / the parent), else in this process."""
	if not (getattr(check, "isolate_cases", False) or _ALWAYS_ISOLATE):
		seed_globals(case)
		return check.run_case(case)
	r, w = os.pipe()
	# the faulthandler watchdog is a thread: it must not be armed across a fork
	# (the child would wait forever for a thread it does not have)
	faulthandler.cancel_dump_traceback_later()
	pid = os.fork()
	if pid == 0:
		code = 0
		try:
			os.close(r)
			after_fork()
			faulthandler.dump_traceback_later(check.hang_s, exit=True)
			try:
				seed_globals(case)
				out = check.run_case(case)
				payload = pickle.dumps(("ok", out))
			except BaseException:
				payload = pickle.dumps(("err", traceback.format_exc()[-4000:]))
			with os.fdopen(w, "wb") as f:
				f.write(payload)
		except BaseException:
			code = 1
		finally:
			os._exit(code)
	os.close(w)
	faulthandler.dump_traceback_later(check.hang_s + 60, exit=True)
	try:
		with os.fdopen(r, "rb") as f:
			data = f.read()
		_, status = os.waitpid(pid, 0)
	finally:
		faulthandler.cancel_dump_traceback_later()
	if not data:
		raise ChildDied("isolated child died (status %d)" % status)
	kind, val = pickle.loads(data)
	if kind == "err":
		raise RuntimeError("exception in isolated child:\n" + val)
	return val


class ChildDied(RuntimeError):
	pass


def _run_items(check, items, tier, want_digests=False, hang_s=None, direct=False):
	"""Run work items serially in this process; return an Agg.  ``direct``: this
	process already is the isolated child, do not fork again."""
	agg = Agg()
	hang_s = hang_s or check.hang_s
	for leg, seed in items:
		t0 = time.time()
		case = None
		try:
			faulthandler.dump_traceback_later(hang_s, exit=True)
			case = check.gen_case(leg, seed, tier)
			if direct:
				seed_globals(case)
				out = check.run_case(case)
			else:
				out = run_one(check, case)
		except Exception:
			agg.errors.append({"leg": leg, "seed": seed,
				"traceback": traceback.format_exc()[-4000:]})
			continue
		finally:
			faulthandler.cancel_dump_traceback_later()
		agg.n_runs += 1
		agg.by_leg[leg] += 1
		agg.leg_wall[leg] += time.time() - t0
		agg.steps += out.steps
		agg.stats.update(out.stats)
		if out.skipped:
			agg.skipped[out.skipped] += 1
		for m, keys in out.distinct.items():
			s = agg.distinct.setdefault(m, set())
			for k in keys:
				s.add(_h8(k))
		if out.nontrivial and not out.skipped:
			agg.n_nontrivial += 1
			agg.nontrivial_keys.add(_h8(out.digest))
		if want_digests:
			agg.digests[(leg, seed)] = out.digest
		if out.violations:
			agg.violations.append({"leg": leg, "seed": seed, "case": case,
				"violations": [v.to_json() for v in out.violations],
				"digest": out.digest})
		if out.sample is not None and len(agg.samples) < 3:
			agg.samples.append(out.sample)
	return agg


def _fork_map(check, items, tier, want_digests, jobs, wall_cap, t_start, agg, info):
	"""One freshly forked child of THIS process per work item (used when the check
	asks for case isolation).  Children are direct forks of the prepared parent,
	which never executes a case itself."""
	scratch = repo.scratch_dir()
	pending = list(items)
	running = {}
	faulthandler.cancel_dump_traceback_later()
	while pending or running:
		while pending and len(running) < jobs:
			if time.time() - t_start > wall_cap:
				info["truncated"] = True
				pending = []
				break
			item = pending.pop(0)
			pid = os.fork()
			if pid == 0:
				code = 0
				try:
					after_fork()
					a = _run_items(check, [item], tier, want_digests, direct=True)
					path = os.path.join(scratch, "iso.%d.pkl" % os.getpid())
					with open(path + ".tmp", "wb") as f:
						pickle.dump(a, f)
					os.replace(path + ".tmp", path)
				except BaseException:
					code = 1
				finally:
					os._exit(code)
			running[pid] = (item, time.time())
		if not running:
			break
		pid, status = os.waitpid(-1, 0)
		if pid not in running:
			continue
		item, t0 = running.pop(pid)
		path = os.path.join(scratch, "iso.%d.pkl" % pid)
		a = None
		if os.path.exists(path):
			try:
				with open(path, "rb") as f:
					a = pickle.load(f)
			except Exception:
				a = None
			os.remove(path)
		if a is not None and status == 0:
			agg.merge(a)
		elif os.WIFSIGNALED(status):
			info["crashes"].append({"leg": item[0], "seed": item[1],
				"returncode": -os.WTERMSIG(status), "tail": "isolated child killed by "
				"signal %d" % os.WTERMSIG(status)})
		else:
			info["timeouts"] += 1
			agg.errors.append({"leg": item[0], "seed": item[1], "traceback":
				"isolated child exited with status %d after %.0fs (hang watchdog or "
				"harness failure)" % (status, time.time() - t0)})


def _pool_worker(items, tier, want_digests):
	return _run_items(_CHECK, items, tier, want_digests)


def _chunks(items, n):
	return [items[i:i + n] for i in range(0, len(items), n)]


def _subprocess_worker(check, items, tier, want_digests, timeout, env=None):
	"""Run items in a fresh interpreter; returns (Agg or None, returncode, tail)."""
	scratch = repo.scratch_dir()
	tag = hashlib.sha1(repr((items[:2], len(items), time.time(), os.getpid()))
		.encode()).hexdigest()[:12]
	fin = os.path.join(scratch, "w%s.in" % tag)
	fout = os.path.join(scratch, "w%s.out" % tag)
	with open(fin, "wb") as f:
		pickle.dump({"items": items, "tier": tier, "want_digests": want_digests}, f)
	e = dict(os.environ)
	e.update(env or {})
	try:
		p = subprocess.run([sys.executable, "-B", os.path.join(VERIF, "run.py"),
			check.prop_id, "--worker", fin, fout], capture_output=True, text=True,
			timeout=timeout, env=e, cwd=VERIF)
		rc, tail = p.returncode, (p.stdout + p.stderr)[-3000:]
	except subprocess.TimeoutExpired as ex:
		rc, tail = -999, "timeout after %ss" % timeout
	agg = None
	if os.path.exists(fout):
		try:
			with open(fout, "rb") as f:
				agg = pickle.load(f)
		except Exception:
			agg = None
	for p_ in (fin, fout):
		try:
			os.remove(p_)
		except OSError:
			pass
	return agg, rc, tail


def _worker_mode(check, fin, fout):
	with open(fin, "rb") as f:
		spec = pickle.load(f)
	check.prepare(spec["tier"], fresh=True)
	agg = _run_items(check, spec["items"], spec["tier"], spec["want_digests"])
	with open(fout + ".tmp", "wb") as f:
		pickle.dump(agg, f)
	os.replace(fout + ".tmp", fout)
	return 0


def explore(check, tier, base_seed, jobs, want_digests=False, items=None,
	quiet=False):
	"""Run the planned work items for a tier; return (Agg, info dict)."""
	global _CHECK
	params = check.tiers[tier]
	t_start = time.time()
	if items is None:
		items = check.plan(tier, base_seed)
	fork_items = [it for it in items if check.leg_mode(it[0]) == "fork"]
	fresh_items = [it for it in items if check.leg_mode(it[0]) == "fresh"]
	wall_cap = float(os.environ.get("VERIF_WALL_CAP", params.get("wall_cap_s", 3600)))
	agg = Agg()
	info = {"truncated": False, "crashes": [], "timeouts": 0}

	# fresh-interpreter legs run concurrently with the fork pool
	fresh_futs = []
	tp = ThreadPoolExecutor(max_workers=max(1, params.get("fresh_procs", 1)))
	if fresh_items:
		n_fp = max(1, params.get("fresh_procs", 1))
		per = max(1, (len(fresh_items) + n_fp - 1) // n_fp)
		for ch in _chunks(fresh_items, per):
			fresh_futs.append((ch, tp.submit(_subprocess_worker, check, ch, tier,
				want_digests, wall_cap, check.fresh_env(tier))))

	_CHECK = check
	unfinished = []
	if fork_items and getattr(check, "isolate_cases", False):
		_fork_map(check, fork_items, tier, want_digests, max(1, jobs), wall_cap,
			t_start, agg, info)
	elif fork_items:
		n_workers = max(1, min(jobs, len(fork_items)))
		csize = max(1, min(params.get("chunk", 50),
			(len(fork_items) + n_workers * 4 - 1) // (n_workers * 4)))
		chunks = _chunks(fork_items, csize)
		ctx = multiprocessing.get_context("fork")
		ex = ProcessPoolExecutor(max_workers=n_workers, mp_context=ctx,
			initializer=after_fork)
		futs = [(ch, ex.submit(_pool_worker, ch, tier, want_digests)) for ch in chunks]
		broken = False
		for ch, fut in futs:
			remaining = wall_cap - (time.time() - t_start)
			if remaining <= 0 and not broken:
				info["truncated"] = True
				if not fut.done():
					fut.cancel()
				if fut.cancelled():
					continue
			try:
				agg.merge(fut.result(timeout=max(30.0, remaining + check.hang_s)))
			except BrokenProcessPool:
				broken = True
				unfinished.append(ch)
			except Exception as e:
				if fut.cancelled():
					continue
				if isinstance(e, TimeoutError):
					info["timeouts"] += 1
					agg.errors.append({"leg": ch[0][0], "seed": ch[0][1],
						"traceback": "chunk timed out"})
					broken = True
				else:
					agg.errors.append({"leg": ch[0][0], "seed": ch[0][1],
						"traceback": "pool: %r" % (e,)})
		ex.shutdown(wait=not broken, cancel_futures=True)

	# chunks lost to a dead worker: isolate the culprit seeds in subprocesses
	if unfinished:
		def isolate(ch):
			a, rc, tail = _subprocess_worker(check, ch, tier, want_digests,
				check.hang_s * 2 + 120)
			return ch, a, rc, tail
		with ThreadPoolExecutor(max_workers=jobs) as tp2:
			results = list(tp2.map(isolate, unfinished))
		singles = []
		for ch, a, rc, tail in results:
			if a is not None and rc == 0:
				agg.merge(a)
			else:
				singles.extend([it] for it in ch)
		# single seeds, a wave at a time; three reproducible crashes are enough to
		# report -- the rest of the lost chunks is counted as not run
		pos = 0
		while pos < len(singles) and len(info["crashes"]) < 3:
			wave = singles[pos:pos + jobs]
			pos += len(wave)
			with ThreadPoolExecutor(max_workers=jobs) as tp2:
				results = list(tp2.map(isolate, wave))
			for ch, a, rc, tail in results:
				if a is not None and rc == 0:
					agg.merge(a)
				else:
					info["crashes"].append({"leg": ch[0][0], "seed": ch[0][1],
						"returncode": rc, "tail": tail[-1500:]})
		info["not_run_after_crashes"] = len(singles) - pos

	for ch, fut in fresh_futs:
		a, rc, tail = fut.result()
		if a is not None and rc == 0:
			agg.merge(a)
		else:
			agg.errors.append({"leg": ch[0][0], "seed": ch[0][1],
				"traceback": "fresh-interpreter leg failed rc=%s\n%s" % (rc, tail)})
	tp.shutdown()
	info["wall_s"] = time.time() - t_start
	info["n_planned"] = len(items)
	return agg, info


def _violation_key(v):
	return (v["class"], json.dumps(v.get("signature", {}).get("key", None),
		sort_keys=True))


def load_known():
	path = os.path.join(VERIF, "known_findings.json")
	if not os.path.exists(path):
		return []
	with open(path) as f:
		return json.load(f).get("findings", [])


def replay_file(check, path):
	"""Replay a recorded case in this process. Exit 1 if it still violates."""
	with open(path) as f:
		rec = json.load(f)
	check.prepare(rec.get("tier", "quick"), fresh=True)
	out = run_one(check, rec["case"])
	classes = sorted(set(v.klass for v in out.violations))
	print("REPLAY property=%s digest=%s classes=%s" % (check.prop_id, out.digest,
		",".join(classes) or "-"))
	for v in out.violations[:5]:
		print("  violation[%s]: %s" % (v.klass, v.detail[:600]))
	if out.violations:
		print("VIOLATION property=%s replay=%s" % (check.prop_id, path))
		return 1
	return 0


def _confirm(check, path, want_class, want_digest):
	"""Replay in a fresh interpreter; True iff same class (and digest) shows."""
	try:
		p = subprocess.run([sys.executable, "-B", os.path.join(VERIF, "run.py"),
			check.prop_id, "--replay", path], capture_output=True, text=True,
			timeout=check.hang_s * 2 + 300, cwd=VERIF)
	except subprocess.TimeoutExpired:
		return False, "replay timed out"
	if want_class == "crash":
		return (p.returncode not in (0, 1, 3)), "rc=%s" % p.returncode
	for line in p.stdout.splitlines():
		if line.startswith("REPLAY "):
			ok = ("classes=" in line and want_class in
				line.split("classes=")[1].split(","))
			if ok and want_digest and ("digest=%s" % want_digest) not in line:
				return False, "class reproduced but digest differs: " + line
			return ok, line
	return False, "no REPLAY line (rc=%s): %s" % (p.returncode,
		(p.stdout + p.stderr)[-800:])


def main(check, argv):
	if argv[0] == "--worker":
		return _worker_mode(check, argv[1], argv[2])
	if argv[0] == "--replay":
		return replay_file(check, argv[1])
	tier = argv[0]
	if tier not in check.tiers:
		print("unknown tier %r" % tier)
		return 3
	base_seed = int(os.environ.get("VERIF_SEED", "0") or 0)
	jobs = int(os.environ.get("VERIF_JOBS", "0") or 0) or (os.cpu_count() or 4)
	t0 = time.time()
	print("check %s tier=%s VERIF_SEED=%d jobs=%d repo=%s tree=%s" % (check.prop_id,
		tier, base_seed, jobs, repo.REPO, repo.tree_id()))
	sys.stdout.flush()
	try:
		check.prepare(tier, fresh=False)
		agg, info = explore(check, tier, base_seed, jobs)
	except Exception:
		print("HARNESS-ERROR: %s" % traceback.format_exc())
		return 3

	global _ALWAYS_ISOLATE
	_ALWAYS_ISOLATE = True
	known = [k for k in load_known() if k.get("property") == check.prop_id]
	open_known = [k for k in known if k.get("status") == "open"]
	groups = collections.OrderedDict()
	for rec in agg.violations:
		for v in rec["violations"]:
			groups.setdefault(_violation_key(v), []).append((rec, v))
	reported, known_hit, unreproduced = [], collections.OrderedDict(), []
	os.makedirs(os.path.join(OUT, "replays"), exist_ok=True)
	max_report = int(os.environ.get("VERIF_MAX_REPORT", "6"))
	for key, occ in groups.items():
		# all occurrences of a group share class+key; decide known-ness per group
		rec, v = occ[0]
		entry = None
		for k in open_known:
			if check.matches_known(v, rec["case"], k):
				entry = k
				break
		if entry is not None and all(any(check.matches_known(v2, r2["case"], k)
				for k in open_known) for r2, v2 in occ):
			known_hit.setdefault(entry["id"], [entry, 0])[1] += len(occ)
			continue
		# an unlisted violation: pick the first occurrence not covered by a finding
		for r2, v2 in occ:
			if not any(check.matches_known(v2, r2["case"], k) for k in open_known):
				rec, v = r2, v2
				break
		if len(reported) >= max_report:
			continue
		case = rec["case"]
		try:
			small = check.minimise(case, v["class"], v.get("signature", {}).get("key"))
		except Exception:
			print("minimiser failed (reporting unminimised case): %s" %
				traceback.format_exc()[-1500:])
			small = case
		try:
			out = run_one(check, small)
			vs = [x for x in out.violations if x.klass == v["class"]]
			if not vs:
				small, out = case, run_one(check, case)
				vs = [x for x in out.violations if x.klass == v["class"]]
		except (ChildDied, RuntimeError) as e:
			info["crashes"].append({"leg": rec["leg"], "seed": rec["seed"],
				"returncode": -1, "tail": "re-execution of a violating case killed the "
				"interpreter: %s" % str(e)[:300]})
			continue
		if not vs:
			unreproduced.append({"leg": rec["leg"], "seed": rec["seed"],
				"class": v["class"], "why": "not reproduced in the parent process",
				"detail": v.get("detail", "")[:700]})
			continue
		# after minimisation the case may have turned into a known finding
		if any(check.matches_known(vs[0].to_json(), small, k) for k in open_known) \
				and not any(check.matches_known(v, case, k) for k in open_known):
			small, out = case, run_one(check, case)
			vs = [x for x in out.violations if x.klass == v["class"]]
		path = os.path.join(OUT, "replays", "%s-%s-%d-%s.json" % (check.prop_id,
			rec["leg"], rec["seed"], v["class"]))
		core.dump_json({"property": check.prop_id, "tier": tier, "leg": rec["leg"],
			"seed": rec["seed"], "base_seed": base_seed, "case": small,
			"violation": vs[0].to_json(), "digest": out.digest,
			"n_occurrences_in_run": len(occ),
			"replay_cmd": "./check %s --replay %s" % (check.prop_id, path)}, path)
		ok, why = _confirm(check, path, v["class"], out.digest if
			check.confirm_digest(rec["leg"]) else None)
		if not ok and why.startswith("class reproduced but digest differs"):
			# The same violation shows in a fresh process but not bit for bit.  The
			# harness is deterministic on its own (selftest/determinism.py), so the
			# code under test is nondeterministic here (e.g. it reads uninitialised
			# memory): if the class shows once more, report it, flagged as such.
			ok2, why2 = _confirm(check, path, v["class"], None)
			if ok2:
				ok = True
				vs[0].detail += " [replays reproduce this violation but not bit for " \
					"bit: the code under test behaves nondeterministically]"
		if ok:
			reported.append((path, vs[0], len(occ)))
		else:
			unreproduced.append({"leg": rec["leg"], "seed": rec["seed"],
				"class": v["class"], "why": why, "path": path,
				"detail": v.get("detail", "")[:700]})
	for c in info["crashes"]:
		case = check.gen_case(c["leg"], c["seed"], tier)
		path = os.path.join(OUT, "replays", "%s-%s-%d-crash.json" % (check.prop_id,
			c["leg"], c["seed"]))
		core.dump_json({"property": check.prop_id, "tier": tier, "leg": c["leg"],
			"seed": c["seed"], "case": case, "violation": {"class": "crash",
			"detail": "interpreter died: rc=%s %s" % (c["returncode"], c["tail"])}},
			path)
		ok, why = _confirm(check, path, "crash", None)
		if ok:
			reported.append((path, core.Violation("crash", "process died rc=%s" %
				c["returncode"]), 1))
		else:
			unreproduced.append({"leg": c["leg"], "seed": c["seed"],
				"class": "crash", "why": why})

	wall = time.time() - t0
	write_evidence(check, tier, base_seed, agg, info, wall, reported, known_hit,
		unreproduced)

	for kid, (entry, n) in known_hit.items():
		print("KNOWN-FINDING: property=%s %s [%s; %d occurrence(s) in this run]" % (
			check.prop_id, entry["what_fails"], kid, n))
	for path, v, n in reported:
		print("  %s: %s (%d occurrence(s))" % (v.klass, v.detail[:500], n))
		print("VIOLATION property=%s replay=%s" % (check.prop_id, path))
	for e in agg.errors[:5]:
		print("HARNESS-ERROR leg=%s seed=%s\n%s" % (e["leg"], e["seed"],
			e["traceback"]))
	for u in unreproduced[:5]:
		print("UNREPRODUCED (harness nondeterminism, not reported as violation): %s"
			% json.dumps(u))
	print("%s %s: runs=%d nontrivial=%d steps=%d violations=%d known=%d errors=%d "
		"wall=%.1fs%s" % (check.prop_id, tier, agg.n_runs, agg.n_nontrivial,
		agg.steps, len(reported), sum(n for _, n in known_hit.values()),
		len(agg.errors), wall, " (truncated by wall cap)" if info["truncated"] else ""))
	if reported:
		return 1
	if agg.errors or unreproduced or info["timeouts"]:
		return 3
	if agg.n_runs == 0:
		print("HARNESS-ERROR: nothing was run")
		return 3
	return 0


def write_evidence(check, tier, base_seed, agg, info, wall, reported, known_hit,
	unreproduced):
	distinct = {k: len(v) for k, v in agg.distinct.items()}
	runs_per_hour = agg.n_runs / max(wall, 1e-9) * 3600.0
	cov = {
		"evaluations": int(agg.n_runs),
		"distinct_nontrivial": int(len(agg.nontrivial_keys)),
		"rule": check.rule,
		"samples": core.jsonable(agg.samples[:4]) or ["(no sample recorded)"],
		"exhaustive": False,
		"runs_by_leg": dict(agg.by_leg),
		"wall_s_by_leg_cpu": {k: round(v, 2) for k, v in agg.leg_wall.items()},
		"simulated_steps": int(agg.steps),
		"simulated_time_note": "tangermeme reads no clock; 'simulated time' is "
			"counted in scheduler / operation steps",
		"runs_per_hour": round(runs_per_hour),
		"seeds_per_hour": round(runs_per_hour),
		"steps_per_hour": round(agg.steps / max(wall, 1e-9) * 3600.0),
		"fault_and_probe_counters": {k: int(v) for k, v in sorted(agg.stats.items())},
		"distinct_measures": distinct,
		"skipped_outside_domain": dict(agg.skipped),
		"real_vs_stub": check.real_vs_stub,
		"known_findings_matched": {k: n for k, (e, n) in known_hit.items()},
		"violations_reported": [{"replay": p, "class": v.klass, "detail":
			v.detail[:400], "occurrences": n} for p, v, n in reported],
		"unreproduced": unreproduced,
		"harness_errors": len(agg.errors),
		"truncated_by_wall_cap": bool(info.get("truncated")),
		"not_run_after_crashes": int(info.get("not_run_after_crashes", 0) or 0),
		"planned_runs": info.get("n_planned"),
		"tree": repo.tree_id(),
		"jobs": int(os.environ.get("VERIF_JOBS", "0") or 0) or (os.cpu_count() or 4),
	}
	cov.update(check.extra_coverage(agg, tier))
	ev = {
		"property_id": check.prop_id,
		"tier": tier,
		"seed": int(base_seed),
		"level": check.level,
		"coverage": cov,
		"assumptions": check.assumptions,
		"wall_s": round(wall, 2),
		"violations": len(reported),
	}
	os.makedirs(os.path.join(OUT, "evidence"), exist_ok=True)
	core.dump_json(ev, os.path.join(OUT, "evidence", "%s.json" % check.prop_id))


class Check(object):
	"""Base class of a registered check."""

	prop_id = None
	level = "exploration"
	rule = ""
	assumptions = []
	real_vs_stub = {}
	hang_s = 300
	tiers = {}
	isolate_cases = False     # True: every case runs in a freshly forked child

	def prepare(self, tier, fresh=False):
		repo.setup()

	def plan(self, tier, base_seed):
		params = self.tiers[tier]
		items = []
		legs = params["legs"]
		if os.environ.get("VERIF_LEGS"):      # e.g. VERIF_LEGS="sim=200,real=10" (debugging)
			legs = [(kv.split("=")[0], int(kv.split("=")[1]))
				for kv in os.environ["VERIF_LEGS"].split(",")]
		for leg, n in legs:
			for i in range(n):
				items.append((leg, base_seed * 10000000 + i))
		return items

	def leg_mode(self, leg):
		return "fork"

	def fresh_env(self, tier):
		return {}

	def gen_case(self, leg, seed, tier):
		raise NotImplementedError

	def run_case(self, case):
		raise NotImplementedError

	def minimise(self, case, klass, key):
		return case

	def still_fails(self, case, klass, key=None):
		try:
			out = run_one(self, case)
		except Exception:
			return False
		for v in out.violations:
			if v.klass == klass and (key is None or v.signature.get("key") == key):
				return True
		return False

	def confirm_digest(self, leg):
		"""Must a fresh-process replay reproduce the digest (not just the violation
		class)?  True for simulated legs; legs that run the shipped binary under a
		schedule the simulator does not own answer False."""
		return self.leg_mode(leg) == "fork"

	def matches_known(self, violation, case, entry):
		sig = entry.get("signature", {})
		if sig.get("class") != violation["class"]:
			return False
		want = sig.get("key")
		return want is None or want == violation.get("signature", {}).get("key")

	def extra_coverage(self, agg, tier):
		return {}
