"""MANIFEST.setup_cmd: verify that everything the checks need is importable
offline (nothing is built or fetched)."""
import os, sys
sys.path.insert(0, os.path.dirname(os.path.dirname(os.path.abspath(__file__))))
from simkit import repo
repo.setup()
import numba, numpy, torch, pandas, pyfaidx, pyBigWig, joblib   # noqa
import tangermeme
from simkit import core, runner, minimise                    # noqa
from engines import threads                                   # noqa
print("setup ok: tangermeme from", os.path.dirname(tangermeme.__file__),
	"numba", numba.__version__, "torch", torch.__version__)
