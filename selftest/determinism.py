"""Determinism self-test: one seed is one exactly repeatable execution.

usage: python selftest/determinism.py <ID> [n_per_leg] [tier]

For n seeds of every leg of the check: (a) run twice in this process, (b) run in
a fork pool with 16 workers, (c) run in a fresh interpreter under a different
PYTHONHASHSEED with a 3-worker pool.  All event-log digests must agree.
Exit 0 iff they do.
"""

import importlib
import os
import pickle
import subprocess
import sys

HERE = os.path.dirname(os.path.abspath(__file__))
VERIF = os.path.dirname(HERE)
sys.path.insert(0, VERIF)


def child(prop, fin, fout, jobs):
	from simkit import runner
	check = importlib.import_module("checks." + prop.lower()).CHECK
	with open(fin, "rb") as f:
		spec = pickle.load(f)
	check.prepare(spec["tier"], fresh=False)
	agg, info = runner.explore(check, spec["tier"], 0, jobs, want_digests=True,
		items=spec["items"])
	with open(fout, "wb") as f:
		pickle.dump({"digests": agg.digests, "errors": agg.errors}, f)
	return 0


def main():
	if sys.argv[1] == "--child":
		return child(sys.argv[2], sys.argv[3], sys.argv[4], int(sys.argv[5]))
	prop = sys.argv[1]
	n = int(sys.argv[2]) if len(sys.argv) > 2 else 40
	tier = sys.argv[3] if len(sys.argv) > 3 else "quick"
	from simkit import repo, runner
	check = importlib.import_module("checks." + prop.lower()).CHECK
	check.prepare(tier, fresh=False)
	legs = [leg for leg, _ in check.tiers[tier]["legs"]]
	items = []
	for leg in legs:
		k = n if check.leg_mode(leg) == "fork" else max(2, n // 10)
		items += [(leg, 7000000 + i) for i in range(k)]
	bad = 0
	# (a) twice in-process (fork legs only; fresh legs are compared across processes)
	d1 = {}
	for leg, seed in items:
		if check.leg_mode(leg) != "fork":
			continue
		a = runner.run_one(check, check.gen_case(leg, seed, tier)).digest
		b = runner.run_one(check, check.gen_case(leg, seed, tier)).digest
		d1[(leg, seed)] = a
		if a != b:
			bad += 1
			print("DIVERGED in-process: leg=%s seed=%d %s %s" % (leg, seed, a, b))
	# (b) pool with many workers
	agg, info = runner.explore(check, tier, 0, 16, want_digests=True, items=items)
	for e in agg.errors:
		print("ERROR", e)
		bad += 1
	for k, v in d1.items():
		if agg.digests.get(k) != v:
			bad += 1
			print("DIVERGED pool-vs-inprocess: %r %s %s" % (k, v, agg.digests.get(k)))
	# (c) fresh interpreter, other hash seed, other worker count
	scratch = repo.scratch_dir()
	fin = os.path.join(scratch, "det.in")
	fout = os.path.join(scratch, "det.out")
	with open(fin, "wb") as f:
		pickle.dump({"items": items, "tier": tier}, f)
	env = dict(os.environ)
	env["PYTHONHASHSEED"] = "98765"
	p = subprocess.run([sys.executable, "-B", os.path.abspath(__file__), "--child",
		prop, fin, fout, "3"], env=env, cwd=VERIF, capture_output=True, text=True)
	if p.returncode != 0 or not os.path.exists(fout):
		print("child failed:", p.stdout[-2000:], p.stderr[-2000:])
		return 3
	with open(fout, "rb") as f:
		other = pickle.load(f)
	for e in other["errors"]:
		print("ERROR(child)", e)
		bad += 1
	for k, v in agg.digests.items():
		if other["digests"].get(k) != v:
			bad += 1
			print("DIVERGED fresh-interpreter: %r %s %s" % (k, v,
				other["digests"].get(k)))
	print("determinism %s: %d items (%s), %d divergences" % (prop, len(items),
		", ".join(legs), bad))
	return 1 if bad else 0


if __name__ == "__main__":
	sys.exit(main())
