"""Sensitivity harness for seeded defects (not a registered check).

  python3 selftest/seeded.py import <PROP> <src_dir> <name>   # verify + store under seeded/<name>/
  python3 selftest/seeded.py run <name> [tier]                 # run the property's check against it
  python3 selftest/seeded.py runall [tier]

A seeded defect lives in /verif/seeded/<name>/ (patch.diff, demo.py, meta.json).
Checks are run against a scratch git worktree of /repo's HEAD with the patch
applied (VERIF_REPO points there; evidence/replays are redirected to the scratch
directory), never against /repo itself, and the worktree is removed afterwards.
"""

import json
import os
import shutil
import subprocess
import sys
import time

VERIF = os.path.dirname(os.path.dirname(os.path.abspath(__file__)))
REPO = "/repo"
BASE = "/dev/shm" if os.access("/dev/shm", os.W_OK) else "/tmp"
PY = "/venv/bin/python"


def sh(cmd, **kw):
	return subprocess.run(cmd, shell=isinstance(cmd, str), capture_output=True,
		text=True, **kw)


def make_tree(tag):
	d = os.path.join(BASE, "seeded_wt_%s_%d" % (tag, os.getpid()))
	sh(["git", "-C", REPO, "worktree", "remove", "--force", d])
	p = sh(["git", "-C", REPO, "worktree", "add", "--detach", d, "HEAD"])
	if p.returncode != 0:
		raise RuntimeError(p.stderr)
	return d


def drop_tree(d):
	sh(["git", "-C", REPO, "worktree", "remove", "--force", d])
	shutil.rmtree(d, ignore_errors=True)
	sh(["git", "-C", REPO, "worktree", "prune"])


def apply_patch(tree, patch):
	for args in (["apply"], ["apply", "-C1"]):
		p = sh(["git", "-C", tree] + args + [patch])
		if p.returncode == 0:
			return True, " ".join(args)
		sh(["git", "-C", tree, "checkout", "--", "."])
	return False, p.stderr[-500:]


def env_for(tree, extra=None):
	e = dict(os.environ)
	e.update({"PYTHONPATH": tree, "NUMBA_CACHE_DIR": os.path.join(tree, "_nbcache"),
		"OMP_WAIT_POLICY": "PASSIVE", "GOMP_SPINCOUNT": "0", "TQDM_DISABLE": "1",
		"PYTHONDONTWRITEBYTECODE": "1"})
	e.update(extra or {})
	return e


def run_demo(tree, demo, timeout=900):
	p = sh([PY, "-B", demo], cwd=tree, env=env_for(tree), timeout=timeout)
	return p.returncode, (p.stdout + p.stderr)[-600:]


TESTS_FOR = {
	"tangermeme/match.py": ["tests/test_match.py"],
	"tangermeme/io.py": ["tests/test_io.py", "tests/tools/test_fimo.py",
		"tests/test_annotate.py"],
	"tangermeme/tools/fimo.py": ["tests/tools/test_fimo.py"],
	"tangermeme/tools/tomtom.py": ["tests/tools/test_tomtom.py", "tests/test_annotate.py"],
	"tangermeme/annotate.py": ["tests/test_annotate.py"],
	"tangermeme/ersatz.py": ["tests/test_ersatz.py", "tests/test_deep_lift_shap.py",
		"tests/test_ablate.py", "tests/test_marginalize.py", "tests/test_space.py"],
	"tangermeme/deep_lift_shap.py": ["tests/test_deep_lift_shap.py", "tests/test_ablate.py",
		"tests/test_marginalize.py", "tests/test_space.py", "tests/test_variant_effect.py"],
	"tangermeme/predict.py": ["tests/test_predict.py", "tests/test_ism.py",
		"tests/test_marginalize.py", "tests/test_ablate.py", "tests/test_space.py",
		"tests/test_product.py", "tests/test_variant_effect.py"],
}
CAPTUM = ["--deselect", "tests/test_deep_lift_shap.py::test_captum_deep_lift_shap_args",
	"--deselect", "tests/test_deep_lift_shap.py::test_captum_deep_lift_shap_batch_size",
	"--deselect", "tests/test_deep_lift_shap.py::test_captum_deep_lift_shap_conv",
	"--deselect", "tests/test_deep_lift_shap.py::test_captum_deep_lift_shap_flattendense",
	"--deselect", "tests/test_deep_lift_shap.py::test_captum_deep_lift_shap_n_shuffles",
	"--deselect", "tests/test_deep_lift_shap.py::test_captum_deep_lift_shap_scatter",
	"--deselect", "tests/test_deep_lift_shap.py::test_captum_deep_lift_shap_summodel"]


def touched_files(patch):
	out = []
	for line in open(patch):
		if line.startswith("+++ b/"):
			out.append(line[6:].strip())
	return out


def run_tests(tree, files):
	tests = []
	for f in files:
		for t in TESTS_FOR.get(f, ["tests"]):
			if t not in tests:
				tests.append(t)
	p = sh([PY, "-m", "pytest", "-q", "-p", "no:cacheprovider", "--timeout=900", "-x"]
		+ tests + CAPTUM, cwd=tree, env=env_for(tree), timeout=5000)
	tail = (p.stdout + p.stderr).strip().splitlines()[-1:] if (p.stdout + p.stderr) else []
	return p.returncode, " ".join(tail), tests


def do_import(prop, src, name):
	dst = os.path.join(VERIF, "seeded", name)
	os.makedirs(dst, exist_ok=True)
	patch = os.path.join(src, "patch.diff")
	demo = os.path.join(src, "demo.py")
	base = make_tree(name + "_base")
	mut = make_tree(name + "_mut")
	meta = {"property": prop, "name": name, "source": "independent sub-agent given only "
		"the property text and a scratch worktree", "base_commit": sh(["git", "-C", REPO,
		"rev-parse", "--short", "HEAD"]).stdout.strip()}
	try:
		ok, how = apply_patch(mut, patch)
		meta["patch_applies_to_current_head"] = ok
		meta["apply_mode"] = how
		if not ok:
			print("PATCH DOES NOT APPLY:", how)
			json.dump(meta, open(os.path.join(dst, "meta.json"), "w"), indent=1)
			return 2
		# store the patch as it applies to the current HEAD
		diff = sh(["git", "-C", mut, "diff"]).stdout
		open(os.path.join(dst, "patch.diff"), "w").write(diff)
		shutil.copy(demo, os.path.join(dst, "demo.py"))
		notes = os.path.join(src, "notes.md")
		if os.path.exists(notes):
			shutil.copy(notes, os.path.join(dst, "notes.md"))
		rc0, t0 = run_demo(base, demo)
		rc1, t1 = run_demo(mut, demo)
		meta["demo_on_unpatched_head"] = {"rc": rc0, "tail": t0[-300:]}
		meta["demo_on_patched_head"] = {"rc": rc1, "tail": t1[-300:]}
		files = touched_files(patch)
		meta["files"] = files
		trc, ttail, tests = run_tests(mut, files)
		meta["existing_tests_with_patch"] = {"rc": trc, "summary": ttail, "ran": tests,
			"note": "test modules that import the changed module(s); the 7 captum tests "
			"(baseline always-fail) deselected"}
		meta["confirmed"] = bool(rc0 == 0 and rc1 != 0 and trc == 0)
		print(json.dumps(meta, indent=1))
	finally:
		drop_tree(base)
		drop_tree(mut)
	json.dump(meta, open(os.path.join(dst, "meta.json"), "w"), indent=1)
	return 0 if meta["confirmed"] else 1


def do_run(name, tier="quick", props=None):
	d = os.path.join(VERIF, "seeded", name)
	meta = json.load(open(os.path.join(d, "meta.json")))
	props = props or [meta["property"]]
	tree = make_tree(name + "_run")
	outdir = os.path.join(BASE, "seeded_out_%s_%d" % (name, os.getpid()))
	os.makedirs(outdir, exist_ok=True)
	res = {}
	try:
		ok, how = apply_patch(tree, os.path.join(d, "patch.diff"))
		if not ok:
			print("patch does not apply:", how)
			return 2
		for prop in props:
			t0 = time.time()
			e = dict(os.environ)
			e.update({"VERIF_REPO": tree, "VERIF_OUT": outdir})
			p = sh(["timeout", "3000", os.path.join(VERIF, "check"), prop, tier], env=e,
				cwd=VERIF)
			lines = [l for l in p.stdout.splitlines() if l.startswith(("VIOLATION",
				"KNOWN-FINDING", "HARNESS", "UNREPRODUCED")) or l.startswith("  ")]
			res[prop] = {"rc": p.returncode, "wall_s": round(time.time() - t0, 1),
				"tier": tier, "lines": lines[:12], "summary": p.stdout.strip().splitlines()[-1:]}
			print(name, prop, tier, "rc=%d" % p.returncode, "%.0fs" % (time.time() - t0))
			for l in lines[:6]:
				print("   ", l[:300])
	finally:
		drop_tree(tree)
		shutil.rmtree(outdir, ignore_errors=True)
	meta.setdefault("check_results", {}).update(res)
	meta["detected"] = any(r["rc"] == 1 for r in meta["check_results"].values())
	json.dump(meta, open(os.path.join(d, "meta.json"), "w"), indent=1)
	return 0


def main():
	cmd = sys.argv[1]
	if cmd == "import":
		return do_import(sys.argv[2], sys.argv[3], sys.argv[4])
	if cmd == "run":
		return do_run(sys.argv[2], sys.argv[3] if len(sys.argv) > 3 else "quick")
	if cmd == "runall":
		tier = sys.argv[2] if len(sys.argv) > 2 else "quick"
		for name in sorted(os.listdir(os.path.join(VERIF, "seeded"))):
			if os.path.exists(os.path.join(VERIF, "seeded", name, "meta.json")):
				do_run(name, tier)
		return 0


if __name__ == "__main__":
	sys.exit(main())
