"""Regenerates MANIFEST.json from one place (run: python3 tools_manifest.py)."""
import json

NA = {
 "C01": "pure function of (tensor, motif, position): no thread, shared state, RNG outcome, fault or I/O for a scheduler or fault injector to act on; the right tool is bounded-exhaustive / property-based testing, not simulation",
 "C03": "pure function of (model, X, args, batch_size); the model-state and failure aspects of predict are decided under C07; nothing else depends on a schedule, history, fault or I/O",
 "C04": "numerical identity over (architecture, weights, input, references); hooks fire in autograd's fixed order on the calling thread; no interleaving, fault or history enters the statement",
 "C05": "input/program-quantified numerical equality needing an independent rescale-rule oracle, not a simulator",
 "C08": "index bookkeeping of pure functions; seeds are explicit arguments, so no RNG outcome, history, schedule or fault enters the statement",
 "C09": "pure reshape/index arithmetic over (X, start, end, batch_size); nothing for a scheduler or fault injector to vary",
 "C10": "pure mask/cumsum arithmetic on tensors; input-quantified only",
 "C11": "numerical exactness of a sequential single-threaded DP; its 'environment' quantifier is a JIT build flag (fastmath), not a schedule, fault or history a simulator can drive",
 "C14": "numerical agreement with an independent algorithm over inputs/configurations; the thread/scratch aspects of the same code are decided under C13",
 "C15": "pure string/tensor conversion functions; no state, thread, RNG, fault or I/O",
 "C18": "pure counting functions of their inputs (kmers is sequential; the parallel gapped_kmers is not in the statement)",
 "C19": "pure functions of the attribution tensor with fixed internal seeds; no outcome depends on a schedule, history, fault or I/O",
 "C20": "deterministic optimisation loop over pure predictions; its only model interaction is predict (state covered by C07); an optimality claim needing a brute-force oracle, not a simulator",
}

PENDING = "applicable to this technique (see DESIGN.md section 4) but its check is not built yet at this commit; not claimed until it is"
for _p in ("C02", "C06", "C07", "C12", "C16", "C17"):
	NA.setdefault(_p, PENDING)

CHECKS = {
 "C13": dict(
  level="exploration",
  text="Seeded search over simulated thread schedules: the prange loop of _tomtom is re-compiled from the working-tree source into steppable per-iteration generators and run on K=1..16 simulated threads with seeded work distribution (static/cyclic/dynamic/one-thread), statement-level interleaving and poisoned numpy.empty scratch (zero/NaN/huge/-1/random/stale-from-previous-call), in sessions of 1-3 tomtom()/annotate_seqlets() calls over subsets/permutations/duplications of a mixed-length query pool; every row is compared bit-for-bit with the single-query, single-thread, zero-scratch reference, n_nearest against the full row. A second leg runs the shipped compiled binary at real thread counts/chunk sizes. Sampling, not proof: a clean batch is evidence that no schedule/scratch dependence exists in the explored space.",
  ref="DESIGN.md 4 (C13), 3.2-3.5",
  note="Trusted: CPython executing the orchestration source is faithful to numba's compilation of it (tied back by the real-thread leg, which is bit-compared with the interpreted reference as a probe); compiled kernels are atomic w.r.t. pre-emption; kernels' own internal allocation (t_sums) not poisoned.",
  technique="deterministic simulation: seeded thread-schedule + poisoned-allocator fault injection against a single-thread reference model",
  engine="threads"),
}

ENGINES = [
 {"name": "simkit", "path": "simkit/", "serves_properties": sorted(CHECKS), "kind_free_text": "seeded decision streams, event-log digests, fork-pool runner with crash/hang containment, ddmin minimiser, fresh-process replay confirmation, evidence writer"},
 {"name": "threads", "path": "engines/threads.py", "serves_properties": ["C13", "C12"], "kind_free_text": "AST re-compilation of numba prange bodies into steppable generators; simulated thread scheduler; poisoned numpy.empty allocator"},
]

def main():
	props = [json.loads(l)["id"] for l in open("properties.jsonl")]
	checks = []
	for pid in props:
		if pid not in CHECKS:
			continue
		c = CHECKS[pid]
		checks.append({
			"property_id": pid,
			"quick_cmd": "timeout 1500 ./check %s quick" % pid,
			"thorough_cmd": "timeout 7000 ./check %s thorough" % pid,
			"evidence_file": "evidence/%s.json" % pid,
			"replay_cmd_template": "./check %s --replay {path}" % pid,
			"engine": c["engine"],
			"level_claimed": {"category": c["level"], "text": c["text"], "design_ref": c["ref"]},
			"level_note": c["note"],
			"technique": c["technique"],
		})
	m = {
		"version": 1,
		"setup_cmd": "/venv/bin/python -B selftest/setup_check.py",
		"hooks": {
			"guard": "TANGERMEME_VERIF",
			"enable": "no source hooks are needed: every seam is reached from outside /repo (module-attribute injection, AST re-compilation of the working-tree source, fault-carrying arguments); the guard name is reserved and unused",
			"baseline_off_cmd": "cd /repo && /venv/bin/python -m pytest -ra -q -p no:cacheprovider --timeout=900 --continue-on-collection-errors",
			"source_commits": [],
			"add_only": True,
		},
		"engines": [e for e in ENGINES],
		"checks": checks,
		"notes": "Technique: deterministic simulation with fault injection (DESIGN.md). VERIF_SEED seeds every run; VERIF_REPO (default /repo) selects the tree under test; replays are written to replays/. Genuine defects repaired in /repo are 'fix:' commits recorded in known_findings.json.",
		"not_applicable": [{"property_id": p, "reason": NA[p]} for p in props if p not in CHECKS],
	}
	missing = [p for p in props if p not in CHECKS and p not in NA]
	assert not missing, missing
	json.dump(m, open("MANIFEST.json", "w"), indent=1)
	open("MANIFEST.json", "a").write("\n")

if __name__ == "__main__":
	main()
