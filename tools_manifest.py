"""Regenerates MANIFEST.json from one place (run: python3 tools_manifest.py)."""
import json

NA = {
 "C01": "pure function of (tensor, motif, position): no thread, shared state, RNG outcome, fault or I/O for a scheduler or fault injector to act on; the right tool is bounded-exhaustive / property-based testing, not simulation",
 "C03": "pure function of (model, X, args, batch_size); the model-state and failure aspects of predict are decided under C07; nothing else depends on a schedule, history, fault or I/O",
 "C04": "numerical identity over (architecture, weights, input, references); hooks fire in autograd's fixed order on the calling thread; no interleaving, fault or history enters the statement",
 "C05": "input/program-quantified numerical equality needing an independent rescale-rule oracle, not a simulator",
 "C08": "index bookkeeping of pure functions; seeds are explicit arguments, so no RNG outcome, history, schedule or fault enters the statement",
 "C09": "pure reshape/index arithmetic over (X, start, end, batch_size); nothing for a scheduler or fault injector to vary",
 "C10": "pure mask/cumsum arithmetic on tensors; input-quantified only",
 "C11": "numerical exactness of a sequential single-threaded DP; its 'environment' quantifier is a JIT build flag (fastmath), not a schedule, fault or history a simulator can drive",
 "C14": "numerical agreement with an independent algorithm over inputs/configurations; the thread/scratch aspects of the same code are decided under C13",
 "C15": "pure string/tensor conversion functions; no state, thread, RNG, fault or I/O",
 "C18": "pure counting functions of their inputs (kmers is sequential; the parallel gapped_kmers is not in the statement)",
 "C19": "pure functions of the attribution tensor with fixed internal seeds; no outcome depends on a schedule, history, fault or I/O",
 "C20": "deterministic optimisation loop over pure predictions; its only model interaction is predict (state covered by C07); an optimality claim needing a brute-force oracle, not a simulator",
}

PENDING = "applicable to this technique (see DESIGN.md section 4) but its check is not built yet at this commit; not claimed until it is"
for _p in ():
	NA.setdefault(_p, PENDING)

CHECKS = {
 "C13": dict(
  level="exploration",
  text="Seeded search over simulated thread schedules: the prange loop of _tomtom is re-compiled from the working-tree source into steppable per-iteration generators and run on K=1..16 simulated threads with seeded work distribution (static/cyclic/dynamic/one-thread), statement-level interleaving and poisoned numpy.empty scratch (zero/NaN/huge/-1/random/stale-from-previous-call), in sessions of 1-3 tomtom()/annotate_seqlets() calls over subsets/permutations/duplications of a mixed-length query pool; every row is compared bit-for-bit with the single-query, single-thread, zero-scratch reference, n_nearest against the full row. A second leg runs the shipped compiled binary at real thread counts/chunk sizes. Worlds also cover memory layouts / containers / per-query dtypes of the motifs, duplicated, near-duplicate and redundant targets, near-twin queries, 300-900-target databases, query lists > 2048, count-matrix and rounded (not exactly normalised) queries in mixed dtypes, and results of earlier calls are re-verified at the end of a session. Sampling, not proof: a clean batch is evidence that no schedule/scratch dependence exists in the explored space.",
  ref="DESIGN.md 4 (C13), 3.2-3.5",
  note="Trusted: CPython executing the orchestration source is faithful to numba's compilation of it (tied back by the real-thread leg, which is bit-compared with the interpreted reference as a probe); compiled kernels are atomic w.r.t. pre-emption; kernels' own internal allocation (t_sums) not poisoned.",
  technique="deterministic simulation: seeded thread-schedule + poisoned-allocator fault injection against a single-thread reference model",
  engine="threads"),
}

CHECKS.update({
 "C07": dict(
  level="fault_enumeration",
  text="Crash-point enumeration plus history simulation. Leg 'enum': for each generated (model architecture, API op) pair a dry run counts how often every call-level seam is hit (model forward, autograd backward, reference generator, custom non-linearity rule, func, shuffle_fn); an exception is then injected at EVERY (seam, k) with each of RuntimeError / ValueError / KeyboardInterrupt, plus every invalid-input variant of the op (N column, out-of-range target, wrong args/reference shapes, wrong channels, int8 input, device='cuda'), each on a fresh copy of the model; afterwards all hook dictionaries must be empty, state_dict bytes / requires_grad flags unchanged, no module switched to training, grad mode restored, and forward output and ordinary gradients (w.r.t. input and every parameter) on a probe batch bit-identical. Exhaustive over crash points within each spec; specs are sampled. Leg 'hist': sessions of 2-8 ops (all 14 model-taking API functions, also with func=deep_lift_shap) on ONE shared model, some carrying a fault, each compared with the same op on a pristine copy (same outcome class, bit-equal results; first clean op after a failure must be correct). Generated models also carry aliased activations, mixed train/eval sub-modules, user hooks, accumulated parameter .grad, a float64 buffer in float32 nets, lazily cached tensors, in-place layers, layers named input/output, a legacy backward-hook history, subnormal activations and an implicit-dim Softmax (behaviour in a plain attribute); the snapshot includes every parameter's .grad and the reference probe runs on a deep copy.",
  ref="DESIGN.md 4 (C07)",
  note="Faults only at call-level seams the property names; CPU only; bit-equality relies on deterministic single-threaded torch kernels; leftover scratch attributes (module.input/.output/_NON_LINEAR_OPS) are probes, not violations.",
  technique="deterministic simulation: exhaustive crash-point (exception) injection at call-level seams + seeded call histories on a shared model vs pristine-copy reference",
  engine="modelworld"),
 "C06": dict(
  level="exploration",
  text="History simulation with knob randomisation: sessions of 4-14 operations on one shared generated model -- deep_lift_shap over subsets / permutations / duplications of the example set with seeded batch sizes (1, n_shuffles-1, n_shuffles, n_shuffles+1, multiples, coprimes, total+1), three output modes, generator+integer seed or explicit reference tensor, return_references, through marginalize(func=deep_lift_shap), interleaved with perturbations of every process-global the result must not depend on (numpy/torch RNG, numba thread count, model.train(), other API calls on the model, caller thread, and in the fault-injecting leg a failed deep_lift_shap call). Further history ops: a call that passes additional_nonlinear_ops, an edit of the model between calls, in-place post-processing of returned references, an interfering thread touching global generators at a statement inside the call (settrace pre-emption points); further reference kinds: plain shuffle or a **kwargs wrapper as generator, references a hair away from the input, mixed zero baselines. Leg 'scale': single calls with 1025..n*ns rows per batch or 2^15+k / 2^16+k examples, sampled rows against the example alone. Every attribution row is compared with the canonical single-example result, every returned reference bit-for-bit; worlds whose forward passes sit on a discontinuity of the DeepLIFT rules (max-pool ties) are skipped and counted.",
  ref="DESIGN.md 4 (C06)",
  note="Attributions compared with tolerance (batching changes BLAS summation order); references bit-exact; random_state always an integer or explicit tensor as the statement requires.",
  technique="deterministic simulation: seeded call histories + global-state perturbation faults on a shared model vs single-example reference model",
  engine="modelworld"),
 "C02": dict(
  level="exploration",
  text="Three legs. 'rng': the real dinucleotide_shuffle wrapper code runs around the working-tree source of the Euler walk with every numpy.random.permutation outcome decided by the simulator (seeded uniform, identity, reversal, rotation); outputs must be one-hot, preserve ordered-pair counts and end characters inside the region, leave flanks and the input untouched, and the walk must consume exactly the available transitions. 'sweep': the same with EVERY outcome of every internal permutation enumerated for every sequence of the small scopes (alphabet 2: length 3-8, alphabet 3: 3-7, alphabet 4: 3-6; thorough adds (3,8),(4,7),(4,8)). 'hist': the shipped compiled shuffle / dinucleotide_shuffle under sessions of calls with integer seeds interleaved with perturbations of NumPy's and numba's generators, thread count and caller thread; identical calls must be bit-identical -- also when an interfering thread touches the global generators at a statement inside the call (settrace pre-emption points), when `verbose` differs, and for positional / numpy-typed / negative seeds, half-precision or strided inputs, regions up to 70 000 positions and up to 520 shuffles.",
  ref="DESIGN.md 4 (C02)",
  note="Legs rng/sweep interpret the walk's source with CPython (numba's permutation(m<=0) semantics reproduced by the seam); seeds < 2**31-n; calls the function declines (ValueError for identical shuffles, regions shorter than 3) are not 'returned' results.",
  technique="deterministic simulation: RNG-outcome control of the Euler walk (seeded + exhaustive small scope) and seeded call histories with global-RNG/thread perturbations",
  engine="rngseam"),
 "C12": dict(
  level="exploration",
  text="Leg 'sim': the prange loops of _all_pwm_to_mapping and _fast_hits are re-compiled from source into steppable generators and run on K=1..16 simulated threads with seeded work distribution and interleaving around the real fimo() wrapper; leg 'real': the compiled binary at real thread counts x chunk sizes on generated FASTA+MEME files and on tensor+dict, dim=0/1, return_counts, and reverse-complemented sequences. Oracle: a reference scanner over every start 0..L-w inclusive on both strands (score = sum log2((pwm+eps)/0.25), N contributes 0) with the implementation's own score->p-value tables; reported set must equal the expected set (modulo a 1e-5 band at the float32 threshold), fields and p-values must match, all executions must agree.",
  ref="DESIGN.md 4 (C12)",
  note="Tables from the implementation's sequential _pwm_to_mapping (C11 not claimed); ambiguity band at the threshold; sim leg uses NumPy scalar arithmetic for the orchestration; real-thread schedules uncontrolled.",
  technique="deterministic simulation: seeded thread schedules for the motif-parallel scan + storage-backend switching, against a pure-Python reference scanner",
  engine="threads"),
 "C16": dict(
  level="exploration",
  text="Simulated storage. Leg 'meme'/'meme_trunc': read_meme reads generated MEME documents through the real TextIOWrapper/BufferedReader stack over a simulated raw byte source (module attribute tangermeme.io.open) with seeded short reads (1..64 bytes, small buffers) and, in the fault-injecting leg, a truncation/EOF offset biased to record boundaries (right after a last matrix row, after its newline, at line starts, arbitrary bytes); record layout is seeded (LF/CRLF, trailing blanks/tabs, indentation, 0/1/3 blank lines between records, URL line, header/nsites variants, final newline, EOF immediately after the last row). Oracle: exactly the motifs whose matrices are completely in the (possibly truncated) file, in order, values bit-equal. Leg 'loci': extract_loci on generated genomes with each input supplied through a seeded backend (FASTA|dict, bigWig|dict, BED|DataFrame; 2-4 combinations per world), compared with an independent slicing model (round-robin interleave, midpoint/half-width incl. odd windows and jitter, edge omission, count filters, n_loci).",
  ref="DESIGN.md 4 (C16)",
  note="Boundary loci whose window starts at position 0 or ends exactly at the chromosome end may be kept or omitted; mid-line truncation may make the call raise; names compared after strip().",
  technique="deterministic simulation: simulated storage (short reads, truncation/EOF points, layout, backend switching) against a slicing reference model",
  engine="iosim"),
 "C17": dict(
  level="exploration",
  text="The joblib process pool of extract_matching_loci is replaced (module attribute match.Parallel) by a simulated pool with seeded worker count, task dealing and completion order and an optional failing worker; genome / bigWig / BED inputs are generated files (GC-controlled blocks, N stretches, lower case, NaN signal gaps, chromosome missing from the bigWig). Each world is executed under 3-5 schedules (plus joblib n_jobs=1, and in leg 'realpool' the real loky pool with n_jobs 1-3); every result is checked against a relation oracle recomputed from the genome (aligned in-chromosome tiles, uniqueness, disjointness from input-touched tiles, N filter, signal filter, result size, per-GC-bin lower/upper bounds, no unmatched inputs while eligible background remains, sorted) and all executions of a world must return the same rows.",
  ref="DESIGN.md 4 (C17)",
  note="'touched' is read liberally for disjointness and conservatively (implementation mask) for lower bounds; usable inputs strict/loose likewise; under injected faults only per-row clauses are required.",
  technique="deterministic simulation: simulated worker pool (order, worker count, failure) + generated storage, against a relation oracle and cross-schedule equality",
  engine="parsim"),
})

ENGINES = [
 {"name": "simkit", "path": "simkit/", "serves_properties": sorted(CHECKS), "kind_free_text": "seeded decision streams, event-log digests, fork-pool runner with crash/hang containment, ddmin minimiser, fresh-process replay confirmation, evidence writer"},
 {"name": "modelworld", "path": "engines/modelworld.py, engines/modelops.py", "serves_properties": ["C06", "C07"], "kind_free_text": "generated torch models carrying FaultPoint layers, fault plan consulted at every call-level seam, snapshot invariants, the 14 model-taking API ops as generated operations"},
 {"name": "rngseam", "path": "engines/rngseam.py", "serves_properties": ["C02"], "kind_free_text": "re-binds _fast_shuffle.py_func to globals whose numpy.random.permutation is answered by the simulator (seeded or enumerated)"},
 {"name": "iosim", "path": "engines/iosim.py", "serves_properties": ["C16"], "kind_free_text": "simulated raw byte source behind `open` (short reads, truncation) under the real io.BufferedReader/TextIOWrapper"},
 {"name": "parsim", "path": "engines/parsim.py", "serves_properties": ["C17"], "kind_free_text": "simulated joblib.Parallel: seeded worker count, dealing, completion order, worker failure; results in submission order"},
 {"name": "genome", "path": "engines/genome.py", "serves_properties": ["C12", "C16", "C17"], "kind_free_text": "generated FASTA / MEME / BED / bigWig worlds in the per-run scratch directory"},
 {"name": "threads", "path": "engines/threads.py", "serves_properties": ["C13", "C12"], "kind_free_text": "AST re-compilation of numba prange bodies into steppable generators; simulated thread scheduler; poisoned numpy.empty allocator"},
]

def main():
	props = [json.loads(l)["id"] for l in open("properties.jsonl")]
	checks = []
	for pid in props:
		if pid not in CHECKS:
			continue
		c = CHECKS[pid]
		checks.append({
			"property_id": pid,
			"quick_cmd": "timeout 1500 ./check %s quick" % pid,
			"thorough_cmd": "timeout 7000 ./check %s thorough" % pid,
			"evidence_file": "evidence/%s.json" % pid,
			"replay_cmd_template": "./check %s --replay {path}" % pid,
			"engine": c["engine"],
			"level_claimed": {"category": c["level"], "text": c["text"], "design_ref": c["ref"]},
			"level_note": c["note"],
			"technique": c["technique"],
		})
	m = {
		"version": 1,
		"setup_cmd": "/venv/bin/python -B selftest/setup_check.py",
		"hooks": {
			"guard": "TANGERMEME_VERIF",
			"enable": "no source hooks are needed: every seam is reached from outside /repo (module-attribute injection, AST re-compilation of the working-tree source, fault-carrying arguments); the guard name is reserved and unused",
			"baseline_off_cmd": "cd /repo && /venv/bin/python -m pytest -ra -q -p no:cacheprovider --timeout=900 --continue-on-collection-errors",
			"source_commits": [],
			"add_only": True,
		},
		"engines": [e for e in ENGINES],
		"checks": checks,
		"notes": "Technique: deterministic simulation with fault injection (DESIGN.md). VERIF_SEED seeds every run; VERIF_REPO (default /repo) selects the tree under test; replays are written to replays/. Genuine defects repaired in /repo are 'fix:' commits recorded in known_findings.json.",
		"not_applicable": [{"property_id": p, "reason": NA[p]} for p in props if p not in CHECKS],
	}
	missing = [p for p in props if p not in CHECKS and p not in NA]
	assert not missing, missing
	json.dump(m, open("MANIFEST.json", "w"), indent=1)
	open("MANIFEST.json", "a").write("\n")

if __name__ == "__main__":
	main()
