"""Driver: `python run.py <ID> <tier|--replay file> ...` -> checks/<id>.py main().

A separate driver (instead of `python -m checks.cXX`) so that the check module is
imported exactly once under its real name, in the parent and in forked workers.
"""

import importlib
import os
import sys

HERE = os.path.dirname(os.path.abspath(__file__))
sys.path.insert(0, HERE)


def main():
	if len(sys.argv) < 3:
		print("usage: run.py <ID> quick|thorough|--replay <file>", file=sys.stderr)
		return 3
	prop = sys.argv[1].lower()
	from simkit import runner
	try:
		mod = importlib.import_module("checks." + prop)
	except ImportError as e:
		print("HARNESS-ERROR: cannot import check %s: %r" % (prop, e))
		import traceback
		traceback.print_exc()
		return 3
	return runner.main(mod.CHECK, sys.argv[2:])


if __name__ == "__main__":
	sys.exit(main())
