"""engines.modelworld -- generated torch models that carry fault points, the
fault plan consulted at every call-level seam, model snapshots / invariants.

The model handed to tangermeme is an ordinary torch.nn.Module built from a JSON
spec.  It contains one ``FaultPoint`` (identity) whose forward and whose
autograd backward consult the active ``FaultPlan``; the reference generator,
``func``, ``shuffle_fn`` and custom non-linearity handlers are wrapped
callables that consult the same plan.  The harness never registers a hook on
the model, so "no leftover hooks" is checked as "all hook dicts empty".
"""

import copy
import io

import numpy
import torch

EXC = {"RuntimeError": RuntimeError, "ValueError": ValueError,
	"KeyboardInterrupt": KeyboardInterrupt, "IndexError": IndexError,
	"MemoryError": MemoryError}


class Injected(object):
	"""Marker mixin so that injected exceptions can be told from real ones."""


_INJ_TYPES = {}


def injected_type(name):
	if name not in _INJ_TYPES:
		base = EXC[name]
		_INJ_TYPES[name] = type("Injected" + name, (base, Injected), {})
	return _INJ_TYPES[name]


class FaultPlan(object):
	"""Counts hits of every seam; raises at (seam, k) when armed."""

	def __init__(self, fault=None):
		self.counts = {}
		self.fault = fault            # {'seam':..., 'k':..., 'exc':...} or None
		self.fired = False
		self.armed = True
		self.order = []               # sequence of seam hits (trace)

	def hit(self, seam):
		self.counts[seam] = self.counts.get(seam, 0) + 1
		if len(self.order) < 400:
			self.order.append(seam)
		f = self.fault
		if (self.armed and f is not None and not self.fired and f["seam"] == seam
				and f["k"] == self.counts[seam]):
			self.fired = True
			raise injected_type(f["exc"])("injected fault at %s #%d" % (seam, f["k"]))


ACTIVE = FaultPlan()


def set_plan(plan):
	global ACTIVE
	ACTIVE = plan
	return plan


class _FaultFn(torch.autograd.Function):
	@staticmethod
	def forward(ctx, x):
		return x.view_as(x)

	@staticmethod
	def backward(ctx, g):
		ACTIVE.hit("backward")
		return g


class FaultPoint(torch.nn.Module):
	"""Identity layer; a seam, not a hook."""

	def forward(self, x):
		ACTIVE.hit("forward")
		return _FaultFn.apply(x)


class ScaleBuf(torch.nn.Module):
	"""A layer holding a float64 buffer whatever the dtype of the parameters
	(e.g. normalisation constants built from a NumPy array)."""

	def __init__(self):
		super().__init__()
		self.register_buffer("scale", torch.tensor([0.75, 1.25], dtype=torch.float64))

	def forward(self, x):
		return x * self.scale.to(x.dtype).mean()


class LazyTable(torch.nn.Module):
	"""Adds a position-dependent offset that is built on first use and cached on
	the module (a plain attribute, neither parameter nor buffer)."""

	def __init__(self):
		super().__init__()
		self._table = None

	def forward(self, x):
		if self._table is None or self._table.shape[-1] != x.shape[-1] or \
				self._table.dtype != x.dtype:
			self._table = 1.0 + 0.1 * (torch.arange(x.shape[-1], dtype=x.dtype) * 0.3).sin()
		return x * self._table        # autograd has to save the cached tensor


class InplaceClip(torch.nn.Module):
	"""h + clip(h), the clip done in place when `inplace` is set (as in
	Hardtanh(inplace=True)); flipping the flag changes the function."""

	def __init__(self):
		super().__init__()
		self.inplace = True

	def forward(self, x):
		h = x * 1.0
		c = torch.nn.functional.hardtanh(h, -0.5, 0.5, inplace=self.inplace)
		return h + c


class CustomAct(torch.nn.Module):
	"""A user-defined activation that needs `additional_nonlinear_ops`."""

	def forward(self, x):
		# a seam *inside* a module that deep_lift_shap hooks (when the caller
		# registers a rule for it): a failure here strikes after the forward
		# pre-hook ran and before the forward hook did
		ACTIVE.hit("act_forward")
		return torch.tanh(x) * 0.5 + 0.1 * x


def custom_rule(module, grad_input, grad_output):
	from tangermeme.deep_lift_shap import _nonlinear
	ACTIVE.hit("rule")
	return _nonlinear(module, grad_input, grad_output)


ACTS = {
	"ReLU": lambda: torch.nn.ReLU(), "ELU": lambda: torch.nn.ELU(),
	"Tanh": lambda: torch.nn.Tanh(), "Sigmoid": lambda: torch.nn.Sigmoid(),
	"GELU": lambda: torch.nn.GELU(), "SiLU": lambda: torch.nn.SiLU(),
	"Softplus": lambda: torch.nn.Softplus(), "LeakyReLU": lambda: torch.nn.LeakyReLU(0.1),
	"ReLU6": lambda: torch.nn.ReLU6(), "SELU": lambda: torch.nn.SELU(),
	"CELU": lambda: torch.nn.CELU(), "Mish": lambda: torch.nn.Mish(),
	"LogSigmoid": lambda: torch.nn.LogSigmoid(), "PReLU": lambda: torch.nn.PReLU(),
	"Custom": lambda: CustomAct(),
	# softmax over the dimension torch picks implicitly (0 for a 3-D activation)
	"SoftmaxImplicit": lambda: torch.nn.Softmax(),
}


class GenModel(torch.nn.Module):
	"""conv trunk -> flatten -> dense head; optional extra per-example argument
	that is added to the head input; returns (n, n_targets)."""

	def __init__(self, spec):
		super().__init__()
		self.spec = spec
		layers = []
		C, L = 4, spec["L"]
		for ly in spec["trunk"]:
			t = ly["t"]
			if t == "conv":
				m = torch.nn.Conv1d(C, ly["out"], ly["k"], stride=ly.get("stride", 1),
					dilation=ly.get("dil", 1), padding=ly.get("pad", 0),
					bias=ly.get("bias", True))
				L = (L + 2 * ly.get("pad", 0) - ly.get("dil", 1) * (ly["k"] - 1) - 1) \
					// ly.get("stride", 1) + 1
				C = ly["out"]
			elif t == "act":
				m = ACTS[ly["name"]]()
			elif t == "maxpool":
				m = torch.nn.MaxPool1d(ly["k"], ceil_mode=bool(ly.get("ceil")))
				L = -(-L // ly["k"]) if ly.get("ceil") else L // ly["k"]
			elif t == "avgpool":
				m = torch.nn.AvgPool1d(ly["k"])
				L = L // ly["k"]
			elif t == "dropout":
				m = torch.nn.Dropout(0.5)
			elif t == "bn":
				m = torch.nn.BatchNorm1d(C)
			elif t == "fault":
				m = FaultPoint()
			elif t == "scalebuf":
				m = ScaleBuf()
			elif t == "lazytable":
				m = LazyTable()
			elif t == "inplaceclip":
				m = InplaceClip()
			else:
				raise ValueError(t)
			layers.append(m)
		self.trunk = torch.nn.Sequential(*layers)
		self.flat_dim = C * L
		head = []
		d = self.flat_dim
		for ly in spec["head"]:
			if ly["t"] == "linear":
				head.append(torch.nn.Linear(d, ly["out"]))
				d = ly["out"]
			elif ly["t"] == "act":
				head.append(ACTS[ly["name"]]())
			elif ly["t"] == "fault":
				head.append(FaultPoint())
			elif ly["t"] == "dropout":
				head.append(torch.nn.Dropout(0.5))
		self.head = torch.nn.Sequential(*head)
		self.n_args = spec.get("n_args", 0)
		self.multi = spec.get("multi_output", False)
		if spec.get("named_output"):
			# layers that happen to be called `input` / `output`
			self.output = torch.nn.Linear(spec["n_targets"], spec["n_targets"])
			self.input = torch.nn.Identity()
		if spec.get("alias_act"):
			# the same activation object reachable through a second parent
			for m in list(self.trunk) + list(self.head):
				if type(m).__module__.startswith("torch.nn.modules.activation") or \
						isinstance(m, CustomAct):
					self.alias_act = m
					break

	def forward(self, X, *args):
		if "input" in self._modules:
			X = self.input(X)
		h = self.trunk(X).reshape(X.shape[0], -1)
		for a in args:
			# extra inputs modulate the features (so attributions depend on them)
			h = h * (1.0 + 0.5 * torch.tanh(a.reshape(a.shape[0], -1)[:, :1].to(h.dtype)))
		y = self.head(h)
		if self.spec.get("named_output"):
			y = self.output(y)
		for a in args:
			y = y + a.reshape(a.shape[0], -1)[:, :1].to(y.dtype)
		if self.multi:
			return y, y[:, :1] * 2.0
		return y


def _user_scale_hook(module, inputs, output):
	"""A user's own forward hook (must survive every tangermeme call)."""
	return output * 0.9375


def _user_pre_hook(module, inputs):
	return None


def build_model(spec):
	"""Deterministic model from a spec: weights from spec['wseed']."""
	g = torch.Generator().manual_seed(int(spec["wseed"]))
	m = GenModel(spec)
	dtype = torch.float64 if spec.get("dtype", "float64") == "float64" else torch.float32
	m = m.to(dtype)
	for sub in m.modules():
		if isinstance(sub, ScaleBuf):
			sub.scale = sub.scale.to(torch.float64)     # stays double in a float32 net
	with torch.no_grad():
		for p in m.parameters():
			p.copy_(torch.randn(p.shape, generator=g, dtype=torch.float64).to(dtype)
				* (spec.get("wscale", 0.7) * (1e-20 if spec.get("tiny_weights") and
				dtype == torch.float32 else 1.0)))
		if spec.get("tiny_weights") and dtype == torch.float32:
			# no biases: activations two layers deep are float32 subnormals
			for name, p in m.named_parameters():
				if name.endswith("bias"):
					p.zero_()
		for name, b in m.named_buffers():
			if name.endswith("running_mean"):
				b.copy_(torch.randn(b.shape, generator=g, dtype=torch.float64).to(b.dtype) * 0.1)
			elif name.endswith("running_var"):
				b.copy_(torch.rand(b.shape, generator=g, dtype=torch.float64).to(b.dtype) + 0.5)
	if spec.get("train_mode", False):
		m.train()
	else:
		m.eval()
	if spec.get("user_hooks"):
		acts = [sub for sub in m.modules() if type(sub).__module__.startswith(
			"torch.nn.modules.activation")]
		convs = [sub for sub in m.modules() if isinstance(sub, (torch.nn.Conv1d,
			torch.nn.Linear))]
		if acts:
			acts[0].register_forward_hook(_user_scale_hook)
			acts[-1].register_forward_pre_hook(_user_pre_hook)
		if convs:
			convs[0].register_forward_hook(_user_scale_hook)
	if spec.get("legacy_bwd_history"):
		# a user once attached a legacy backward hook to an activation and removed it
		# again: torch then refuses full backward hooks on that module
		acts = [sub for sub in m.modules() if type(sub).__module__.startswith(
			"torch.nn.modules.activation")]
		if acts:
			import warnings as _w
			with _w.catch_warnings():
				_w.simplefilter("ignore")
				h = acts[-1].register_backward_hook(lambda mod, gi, go: None)
			h.remove()
	if spec.get("stale_grads"):
		# as in the middle of a training step: parameters already carry .grad
		g2 = torch.Generator().manual_seed(int(spec["wseed"]) + 5)
		for p in m.parameters():
			p.grad = torch.randn(p.shape, generator=g2, dtype=torch.float64).to(p.dtype)
	if spec.get("mixed_mode"):
		# root in eval mode, one stateful/random sub-module left in training mode
		m.eval()
		for sub in m.modules():
			if isinstance(sub, (torch.nn.BatchNorm1d, torch.nn.Dropout)):
				sub.train()
				break
	return m


def gen_spec(r, L=None, need_nonlinear=True, allow_custom=True, allow_args=True,
	multi_output=False):
	"""Random architecture spec from a simkit Stream."""
	L = L or r.randint(8, 24)
	trunk = []
	curL = L
	n_conv = r.randint(0, 2)
	names = ["ReLU", "ReLU", "ELU", "Tanh", "Sigmoid", "GELU", "SiLU", "Softplus",
		"LeakyReLU", "ReLU6", "SELU", "CELU", "Mish", "LogSigmoid", "PReLU"]
	has_nl = False
	fault_at = r.randint(0, 3)
	placed = False
	uses_custom = False
	for ci in range(n_conv):
		k = r.randint(1, min(4, curL))
		stride = r.choice([1, 1, 2]) if curL > 6 else 1
		dil = r.choice([1, 1, 2]) if curL > 2 * k + 2 else 1
		pad = r.choice([0, 0, 1, k // 2])
		newL = (curL + 2 * pad - dil * (k - 1) - 1) // stride + 1
		if newL < 2:
			continue
		trunk.append({"t": "conv", "out": r.randint(1, 4), "k": k, "stride": stride,
			"dil": dil, "pad": pad, "bias": r.chance(0.8)})
		curL = newL
		if r.chance(0.3):
			trunk.append({"t": "bn"})
		if not placed and fault_at == ci:
			trunk.append({"t": "fault"})
			placed = True
		if r.chance(0.85):
			nm = r.choice(names)
			if allow_custom and r.chance(0.3):
				nm = "Custom"
				uses_custom = True
			trunk.append({"t": "act", "name": nm})
			has_nl = True
		if curL >= 4 and r.chance(0.4):
			kk = 2
			trunk.append({"t": r.choice(["maxpool", "avgpool"]), "k": kk})
			if trunk[-1]["t"] == "maxpool":
				has_nl = True
				if r.chance(0.3):
					trunk[-1]["ceil"] = True
			curL = -(-curL // kk) if trunk[-1].get("ceil") else curL // kk
		if r.chance(0.2):
			trunk.append({"t": "dropout"})
	head = []
	n_targets = r.randint(1, 3)
	if r.chance(0.6):
		head.append({"t": "linear", "out": r.randint(2, 5)})
		if not placed and r.chance(0.5):
			head.append({"t": "fault"})
			placed = True
		nm = r.choice(names)
		head.append({"t": "act", "name": nm})
		has_nl = True
		if r.chance(0.2):
			head.append({"t": "dropout"})
	if not placed:
		if r.chance(0.5):
			trunk.append({"t": "fault"})
		else:
			head.insert(0, {"t": "fault"})
	if need_nonlinear and not has_nl:
		trunk.append({"t": "act", "name": "ReLU"})
	if r.chance(0.15):
		trunk.insert(r.randint(0, len(trunk)), {"t": "scalebuf"})
	if r.chance(0.15):
		trunk.insert(r.randint(0, len(trunk)), {"t": "lazytable"})
	if r.chance(0.12):
		trunk.insert(r.randint(0, len(trunk)), {"t": "inplaceclip"})
	head.append({"t": "linear", "out": n_targets})
	return {"L": L, "trunk": trunk, "head": head, "n_targets": n_targets,
		"n_args": (r.choice([1, 1, 2]) if (allow_args and r.chance(0.3)) else 0),
		"arg_3d": r.chance(0.3),
		"multi_output": bool(multi_output), "uses_custom": uses_custom,
		"wseed": r.subseed(), "wscale": r.choice([0.3, 0.7, 1.2]),
		"dtype": r.choice(["float64", "float64", "float32"]),
		"train_mode": r.chance(0.3), "alias_act": r.chance(0.15),
		"mixed_mode": r.chance(0.15), "user_hooks": r.chance(0.15),
		"stale_grads": r.chance(0.25), "legacy_bwd_history": r.chance(0.08),
		"named_output": r.chance(0.12),
		"tiny_weights": r.chance(0.08)}


def gen_onehot(seed, n, L, n_zero_cols=0, alphabet=4, dtype=torch.float64):
	r = numpy.random.RandomState(seed % (2 ** 31))
	idx = r.randint(0, alphabet, size=(n, L))
	X = numpy.zeros((n, alphabet, L), dtype="float64")
	for i in range(n):
		X[i, idx[i], numpy.arange(L)] = 1
	for _ in range(n_zero_cols):
		X[r.randint(0, n), :, r.randint(0, L)] = 0
	return torch.from_numpy(X).to(dtype)


# ----------------------------------------------------------------------------
# snapshots and invariants

HOOK_DICTS = ["_forward_hooks", "_forward_pre_hooks", "_backward_hooks",
	"_backward_pre_hooks", "_forward_hooks_with_kwargs",
	"_forward_pre_hooks_with_kwargs", "_forward_hooks_always_called",
	"_state_dict_hooks", "_state_dict_pre_hooks", "_load_state_dict_pre_hooks",
	"_load_state_dict_post_hooks"]


def hook_census(model):
	out = {}
	for name, mod in model.named_modules():
		for d in HOOK_DICTS:
			h = getattr(mod, d, None)
			if h:
				out["%s.%s" % (name or "<root>", d)] = len(h)
	return out


def _probe(model, probe_X, probe_args):
	"""Forward output and ordinary gradients on a fixed probe batch, in eval
	mode, with every training flag restored afterwards."""
	flags = [(m, m.training) for m in model.modules()]
	saved = ACTIVE.armed
	ACTIVE.armed = False
	try:
		model.eval()
		x = probe_X.clone().requires_grad_(True)
		with torch.enable_grad():
			y = model(x, *probe_args)
			if isinstance(y, (tuple, list)):
				y = y[0]
			w = torch.arange(1, y.numel() + 1, dtype=y.dtype).reshape(y.shape) / y.numel()
			params = [p for p in model.parameters() if p.requires_grad]
			grads = torch.autograd.grad((y * w).sum(), [x] + params, allow_unused=True)
		res = [y.detach().clone()] + [None if g is None else g.detach().clone()
			for g in grads]
		return res, None
	except BaseException as e:       # a leaked hook typically makes the probe raise
		return None, "%s: %s" % (type(e).__name__, str(e)[:200])
	finally:
		for m, t in flags:
			m.training = t
		ACTIVE.armed = saved


def _tbytes(t):
	return None if t is None else (str(t.dtype), tuple(t.shape),
		t.detach().cpu().contiguous().numpy().tobytes())


class Snapshot(object):
	"""Everything C07 says must survive a call."""

	def __init__(self, model, probe_X, probe_args):
		self.hooks = hook_census(model)
		self.state = {k: _tbytes(v) for k, v in model.state_dict().items()}
		self.req = {n: p.requires_grad for n, p in model.named_parameters()}
		self.grads = {n: _tbytes(p.grad) for n, p in model.named_parameters()}
		self.training = {n: m.training for n, m in model.named_modules()}
		self.grad_enabled = torch.is_grad_enabled()
		self.probe_X, self.probe_args = probe_X, probe_args
		# the reference probe runs on a deep copy: the model under test must not
		# have been touched (e.g. lazily initialised) by the harness before the op
		res, err = _probe(copy.deepcopy(model), probe_X, probe_args)
		self.probe_err = err
		self.probe = None if res is None else [_tbytes(t) for t in res]

	def compare(self, model):
		"""List of (class, detail) for every invariant broken now."""
		bad = []
		hooks = hook_census(model)
		if hooks != self.hooks:
			extra = {k: v for k, v in hooks.items() if self.hooks.get(k) != v}
			bad.append(("hooks_left", "hook dictionaries changed: %r" % (extra,)))
		state = {k: _tbytes(v) for k, v in model.state_dict().items()}
		if set(state) != set(self.state):
			bad.append(("state_keys", "state_dict keys changed"))
		else:
			ch = [k for k in state if state[k] != self.state[k]]
			if ch:
				bad.append(("state_changed", "parameters/buffers not bit-identical: %r"
					% ch[:6]))
		grads = {n: _tbytes(p.grad) for n, p in model.named_parameters()}
		if grads != self.grads:
			ch = [n for n in grads if grads[n] != self.grads.get(n)]
			bad.append(("param_grad_changed", "the .grad of parameters %r was changed by the "
				"call (gradients a caller has accumulated, or None, must be left alone)"
				% ch[:5]))
		req = {n: p.requires_grad for n, p in model.named_parameters()}
		if req != self.req:
			bad.append(("requires_grad_changed", "requires_grad flags changed: %r" % (
				[k for k in req if req[k] != self.req.get(k)][:6],)))
		for n, m in model.named_modules():
			was = self.training.get(n)
			if m.training not in (was, False):
				bad.append(("mode_changed", "module %r switched to training mode" % n))
				break
		if torch.is_grad_enabled() != self.grad_enabled:
			bad.append(("grad_mode_changed", "torch grad mode left %s" %
				torch.is_grad_enabled()))
			torch.set_grad_enabled(self.grad_enabled)
		res, err = _probe(model, self.probe_X, self.probe_args)
		if self.probe is not None:
			if res is None:
				bad.append(("probe_raises", "an ordinary forward/backward pass on the "
					"model now raises %s" % err))
			else:
				now = [_tbytes(t) for t in res]
				if now[0] != self.probe[0]:
					bad.append(("output_changed", "model output on the probe batch differs"))
				if now[1:] != self.probe[1:]:
					if len(now) != len(self.probe):
						bad.append(("gradient_changed", "the set of parameters that receive "
							"ordinary gradients changed (%d -> %d tensors)" % (
							len(self.probe) - 1, len(now) - 1)))
					else:
						k = [i for i in range(1, len(now)) if now[i] != self.probe[i]]
						bad.append(("gradient_changed", "ordinary gradients differ after the "
							"call (grad #%d of [input]+parameters)" % (k[0] - 1)))
		return bad


def scratch_attrs(model):
	n = 0
	for m in model.modules():
		for a in ("_NON_LINEAR_OPS", "input", "output", "handles"):
			if a in m.__dict__:
				n += 1
	return n


def clone_model(model):
	return copy.deepcopy(model)


def make_args(mspec, n, dtype, lo=-1.0, hi=1.0):
	"""The extra model inputs of a world: n_args tensors with per-example distinct
	rows (2-D, or 3-D when the spec says so); None when the model takes none."""
	k = mspec.get("n_args", 0)
	if not k:
		return None
	out = []
	for j in range(k):
		base = torch.linspace(lo, hi, max(n, 1) + 2, dtype=dtype)[1:n + 1].reshape(n, 1) \
			* (1.0 if j == 0 else -0.5)
		if mspec.get("arg_3d") and j == k - 1:
			base = base.reshape(n, 1, 1).expand(n, 2, 3).clone() + \
				torch.arange(6, dtype=dtype).reshape(1, 2, 3) * 0.01
		out.append(base)
	return tuple(out)
