"""engines.rngseam -- own every outcome of the Euler walk's random draws.

``ersatz._fast_shuffle`` is numba-jitted; its ``py_func`` is re-bound to a copy
of the module globals in which ``numpy`` is a proxy whose ``random.seed`` is a
recorded no-op and whose ``random.permutation(m)`` is answered by a
``PermSource`` the simulator controls.  ``_dinucleotide_shuffle`` and
``dinucleotide_shuffle`` are re-bound to the same globals, so the *real* wrapper
code runs around the simulated RNG.
"""

import math
import types

import numpy


class PermSource(object):
	"""Answers permutation(m).  Modes:
	  prefix mode (enumeration): follow ``prefix`` (list of Lehmer indices), then 0;
	    records the branching factor of every draw in ``self.radix``.
	  strategy mode: 'uniform' (seeded), 'identity', 'reverse', 'rotate'.
	"""

	def __init__(self, prefix=None, strategy=None, rng=None):
		self.prefix = list(prefix or [])
		self.strategy = strategy
		self.rng = rng
		self.radix = []
		self.taken = []
		self.seeds = []
		self.n_draws = 0

	def seed(self, s):
		self.seeds.append(int(s))

	def permutation(self, m):
		m = int(m)
		self.n_draws += 1
		if m <= 0:
			# numba semantics: arange(m) is empty for m <= 0 (NumPy would raise)
			self.radix.append(1)
			self.taken.append(0)
			return numpy.arange(0)
		total = math.factorial(m)
		self.radix.append(total)
		if self.strategy is None:
			k = len(self.taken)
			idx = self.prefix[k] if k < len(self.prefix) else 0
			self.taken.append(idx)
			return lehmer_perm(m, idx)
		if self.strategy == "identity":
			p = numpy.arange(m)
		elif self.strategy == "reverse":
			p = numpy.arange(m)[::-1].copy()
		elif self.strategy == "rotate":
			p = numpy.roll(numpy.arange(m), 1)
		else:
			p = numpy.array(self.rng.sample(range(m), m), dtype="int64")
		self.taken.append(-1)
		return p


def lehmer_perm(m, idx):
	"""The idx-th permutation of range(m) in factorial-number-system order."""
	items = list(range(m))
	out = []
	for i in range(m, 0, -1):
		f = math.factorial(i - 1)
		q, idx = divmod(idx, f)
		out.append(items.pop(q))
	return numpy.array(out, dtype="int64")


def next_prefix(taken, radix):
	"""DFS successor of a fully recorded decision vector; None when exhausted."""
	taken = list(taken)
	i = len(taken) - 1
	while i >= 0:
		if taken[i] + 1 < radix[i]:
			return taken[:i] + [taken[i] + 1]
		i -= 1
	return None


class _RandomProxy(object):
	def __init__(self, src, real):
		self._src = src
		self._real = real

	def seed(self, s):
		self._src.seed(s)

	def permutation(self, m):
		return self._src.permutation(m)

	def __getattr__(self, name):
		return getattr(self._real, name)


class _NumpyProxy(object):
	def __init__(self, src, real):
		self.random = _RandomProxy(src, real.random)
		self._real = real

	def __getattr__(self, name):
		return getattr(self._real, name)


def _rebind(fn, g):
	f = types.FunctionType(fn.__code__, g, fn.__name__, fn.__defaults__, fn.__closure__)
	f.__kwdefaults__ = fn.__kwdefaults__
	return f


class SimErsatz(object):
	"""dinucleotide_shuffle running on a simulated RNG (built per PermSource)."""

	def __init__(self, ersatz, src):
		self.src = src
		self.calls = []        # (next_idxs_counts, counters) captured per walk call
		g_rng = dict(ersatz.__dict__)
		g_rng["numpy"] = _NumpyProxy(src, numpy)
		pyf = getattr(ersatz._fast_shuffle, "py_func", ersatz._fast_shuffle)
		walk = _rebind(pyf, g_rng)
		sim = self

		def fast_shuffle(*args, **kw):
			r = walk(*args, **kw)
			try:
				# positional layout of the pinned signature; purely diagnostic
				sim.calls.append((numpy.array(args[4]).copy(), numpy.array(args[5]).copy()))
			except Exception:
				pass
			return r
		g = dict(ersatz.__dict__)
		g["_fast_shuffle"] = fast_shuffle
		g["_dinucleotide_shuffle"] = _rebind(ersatz._dinucleotide_shuffle, g)
		self.dinucleotide_shuffle = _rebind(ersatz.dinucleotide_shuffle, g)
