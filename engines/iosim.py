"""engines.iosim -- simulated storage for text files read through `open`.

``sim_open`` returns the *real* ``io.TextIOWrapper(io.BufferedReader(raw))`` stack
(default universal-newline translation, like ``open(name, 'r')``) over a
``SimRaw`` byte source that performs seeded short reads and ends the stream at a
planned truncation offset.  It is installed by assigning a module attribute
(``tangermeme.io.open = sim_open``), which shadows the builtin for that module
only, and is removed after the run.
"""

import io
import random


class SimRaw(io.RawIOBase):
	def __init__(self, data, plan, stats):
		self._data = bytes(data)
		self._pos = 0
		self._plan = plan or {}
		self._stats = stats
		self._rng = random.Random(self._plan.get("seed", 0))
		cut = self._plan.get("truncate_at")
		self._end = len(self._data) if cut is None else max(0, min(len(self._data), cut))

	def readable(self):
		return True

	def readinto(self, b):
		n = len(b)
		if self._plan.get("short_reads"):
			n = min(n, self._rng.randint(1, self._plan.get("max_read", 64)))
			self._stats["io.shortread"] = self._stats.get("io.shortread", 0) + 1
		chunk = self._data[self._pos:min(self._end, self._pos + n)]
		b[:len(chunk)] = chunk
		self._pos += len(chunk)
		if not chunk and self._end < len(self._data):
			self._stats["io.truncate.eof_hit"] = self._stats.get("io.truncate.eof_hit", 0) + 1
		return len(chunk)


class SimFS(object):
	"""A tiny in-memory file table with a per-file fault plan."""

	def __init__(self):
		self.files = {}
		self.stats = {}
		self.opened = []

	def add(self, name, data, plan=None):
		self.files[name] = (data if isinstance(data, bytes) else data.encode("utf-8"),
			plan)

	def open(self, name, mode="r", *a, **kw):
		if name not in self.files:
			raise FileNotFoundError(2, "No such simulated file", name)
		if "w" in mode or "a" in mode or "+" in mode:
			raise PermissionError("simulated storage is read-only")
		data, plan = self.files[name]
		self.opened.append(name)
		raw = SimRaw(data, plan, self.stats)
		buf = io.BufferedReader(raw, buffer_size=(plan or {}).get("buffer", 8192))
		if "b" in mode:
			return buf
		return io.TextIOWrapper(buf, encoding="utf-8", newline=kw.get("newline"))


class patched_open(object):
	"""Context manager: module.open = fs.open for the duration."""

	def __init__(self, module, fs):
		self.module, self.fs = module, fs

	def __enter__(self):
		self._had = "open" in self.module.__dict__
		self._old = self.module.__dict__.get("open")
		self.module.open = self.fs.open
		return self.fs

	def __exit__(self, *exc):
		if self._had:
			self.module.open = self._old
		else:
			del self.module.open
		return False
