"""engines.threads -- run a numba `prange` function under simulated threads.

The working-tree source of an ``@njit(parallel=True)`` function is re-compiled
(by CPython) with the body of its single top-level ``prange`` loop lifted into a
generator that yields before every statement.  The loop itself is replaced by a
call to ``ThreadSim.parallel_for`` which distributes iterations over K simulated
threads and interleaves their bodies statement by statement under a seeded (or
explicitly recorded) schedule.  ``numba.get_thread_id()`` answers the simulated
thread that is currently running, ``numba.get_num_threads()`` answers K, and
``numpy.empty`` answers a poisoned buffer.  Everything else the function calls --
in particular the sequential ``@njit`` kernels -- is the real compiled code.
"""

import ast
import copy
import inspect
import random
import textwrap
import types

import numpy


class SimAbort(Exception):
	"""Step cap exceeded (harness bound, not a violation by itself)."""


# ----------------------------------------------------------------------------
# AST transformation


def _is_prange(node):
	if not isinstance(node, ast.Call):
		return False
	f = node.func
	if isinstance(f, ast.Name) and f.id == "prange":
		return True
	if isinstance(f, ast.Attribute) and f.attr == "prange":
		return True
	return False


class _ContinueToReturn(ast.NodeTransformer):
	"""`continue` at the top level of the prange body ends the iteration."""

	def visit_For(self, node):
		return node     # do not descend: continue inside nested loops stays

	def visit_While(self, node):
		return node

	def visit_FunctionDef(self, node):
		return node

	def visit_Continue(self, node):
		return ast.copy_location(ast.Return(value=None), node)


def _instrument(stmts, depth):
	out = []
	for st in stmts:
		y = ast.Expr(value=ast.Yield(value=ast.Constant(value=st.lineno)))
		out.append(ast.copy_location(y, st))
		if depth > 1:
			if isinstance(st, (ast.For, ast.While)):
				st.body = _instrument(st.body, depth - 1)
				st.orelse = _instrument(st.orelse, depth - 1) if st.orelse else []
			elif isinstance(st, ast.If):
				st.body = _instrument(st.body, depth - 1)
				st.orelse = _instrument(st.orelse, depth - 1) if st.orelse else []
			elif isinstance(st, ast.With):
				st.body = _instrument(st.body, depth - 1)
		out.append(st)
	return out


class Steppable(object):
	"""A prange function made steppable.  ``shape`` is 'ast' when the source
	had the expected form and 'atomic' when only iteration-level scheduling is
	possible (fallback); None means the function could not be prepared."""

	def __init__(self, dispatcher, depth=2):
		self.dispatcher = dispatcher
		self.pyfunc = getattr(dispatcher, "py_func", dispatcher)
		self.depth = depth
		self.shape = None
		self.first_line = None
		self.body_lines = []
		self._code = None
		self._build()

	def _build(self):
		src = textwrap.dedent(inspect.getsource(self.pyfunc))
		self.first_line = self.pyfunc.__code__.co_firstlineno
		tree = ast.parse(src)
		fdef = tree.body[0]
		if not isinstance(fdef, ast.FunctionDef):
			raise ValueError("not a function")
		fdef.decorator_list = []
		loops = [i for i, st in enumerate(fdef.body)
			if isinstance(st, ast.For) and _is_prange(st.iter)]
		nested = [n for n in ast.walk(fdef) if isinstance(n, ast.For)
			and _is_prange(n.iter)]
		if len(loops) != 1 or len(nested) != 1 or \
				not isinstance(fdef.body[loops[0]].target, ast.Name):
			raise ValueError("expected exactly one top-level prange loop")
		idx = loops[0]
		loop = fdef.body[idx]
		body = [_ContinueToReturn().visit(copy.deepcopy(st)) for st in loop.body]
		self.body_lines = [st.lineno for st in loop.body]
		body = _instrument(body, self.depth)
		gen = ast.FunctionDef(name="__sim_body",
			args=ast.arguments(posonlyargs=[], args=[ast.arg(arg=loop.target.id)],
				kwonlyargs=[], kw_defaults=[], defaults=[]),
			body=body, decorator_list=[], type_params=[])
		call = ast.Expr(value=ast.Call(func=ast.Name(id="__sim_parallel_for",
			ctx=ast.Load()), args=list(loop.iter.args) + [ast.Name(id="__sim_body",
			ctx=ast.Load())], keywords=[]))
		fdef.body[idx:idx + 1] = [ast.copy_location(gen, loop),
			ast.copy_location(call, loop)]
		ast.fix_missing_locations(tree)
		self._code = compile(tree, "<steppable:%s>" % self.pyfunc.__name__, "exec")
		self.name = fdef.name
		self.shape = "ast"

	def bind(self, sim, extra_globals=None):
		"""Return a callable running the function under ``sim``."""
		g = dict(self.pyfunc.__globals__)
		import numba
		from numba.core.dispatcher import Dispatcher
		for k, v in list(g.items()):
			if isinstance(v, Dispatcher) and v is not self.dispatcher:
				g[k] = TypedCall(v)
		g["numba"] = NumbaProxy(sim, numba)
		g["numpy"] = NumpyProxy(sim, numpy)
		g["prange"] = range
		g["__sim_parallel_for"] = sim.parallel_for
		if extra_globals:
			g.update(extra_globals)
		ns = {}
		exec(self._code, g, ns)
		f = ns[self.name]
		return types.FunctionType(f.__code__, g, f.__name__, f.__defaults__,
			f.__closure__)


class TypedCall(object):
	"""Call a compiled kernel and re-box scalar results with their numba type
	(numba boxes uint64 as a Python int; feeding that back into another kernel
	would select an int64 specialisation the shipped binary never uses)."""

	def __init__(self, disp):
		self._d = disp

	def __getattr__(self, name):
		return getattr(self._d, name)

	def __call__(self, *args, **kw):
		r = self._d(*args, **kw)
		if r is None or isinstance(r, numpy.ndarray):
			return r
		try:
			rts = set(str(s.return_type) for s in self._d.nopython_signatures)
		except Exception:
			return r
		if len(rts) != 1:
			return r
		rt = rts.pop()
		if isinstance(r, (int, float)) and rt in ("uint64", "int64", "int32",
			"uint32", "int16", "uint16", "int8", "uint8", "float64", "float32"):
			return numpy.dtype(rt).type(r)
		return r


class NumbaProxy(object):
	def __init__(self, sim, real):
		self._sim = sim
		self._real = real

	def get_num_threads(self):
		return self._sim.K

	def get_thread_id(self):
		self._sim.stats["get_thread_id"] = self._sim.stats.get("get_thread_id", 0) + 1
		return self._sim.current

	def set_num_threads(self, n):
		self._sim.events.append(("set_num_threads", int(n)))

	def __getattr__(self, name):
		return getattr(self._real, name)


class NumpyProxy(object):
	def __init__(self, sim, real):
		self._sim = sim
		self._real = real

	def empty(self, shape, dtype=float, *a, **kw):
		return self._sim.alloc(shape, dtype)

	def __getattr__(self, name):
		return getattr(self._real, name)


# ----------------------------------------------------------------------------
# scheduler + allocator

POISONS = ("zero", "nan", "huge", "neg", "rand", "stale")


def poison_fill(arr, kind, rng_seed):
	"""Fill a fresh allocation with what 'uninitialised memory' holds."""
	if kind == "zero":
		arr[...] = 0
	elif kind == "nan":
		arr[...] = numpy.nan if arr.dtype.kind == "f" else -77
	elif kind == "huge":
		arr[...] = 7e9 if arr.dtype.kind == "f" else 99
	elif kind == "neg":
		arr[...] = -1
	elif kind == "rand":
		r = numpy.random.RandomState(rng_seed)
		m = min(arr.size, 4099)
		if m == 0:
			return
		if arr.dtype.kind == "f":
			block = r.standard_normal(m) * 10.0 ** r.randint(-3, 6, size=m)
			block[r.rand(m) < 0.05] = 0.0
		else:
			info = numpy.iinfo(arr.dtype)
			block = r.randint(max(info.min, -120), min(info.max, 120) + 1, size=m)
		arr[...] = numpy.resize(block.astype(arr.dtype), arr.shape)
	else:
		raise ValueError(kind)


class ThreadSim(object):
	"""K simulated threads, explicit or seeded work distribution and
	interleaving, poisoned allocations.

	plan = {
	  'K': int,
	  'dist': {'kind': 'static_block'} | {'kind': 'cyclic', 'chunk': c} |
	          {'kind': 'dynamic', 'chunk': c} | {'kind': 'one', 'tid': t} |
	          {'kind': 'explicit', 'queues': [[iters of thread 0], ...]},
	  'sched': {'seed': s, 'stick': p}  and/or  'trace': [tid, tid, ...],
	  'alloc': {'default': kind, 'by_index': {'3': kind}, 'seed': s},
	}
	"""

	def __init__(self, plan, max_steps=200000, stale_pool=None):
		self.plan = plan
		self.K = int(plan["K"])
		self.current = 0
		self.stats = {}
		self.events = []
		self.trace = []            # executed (tid, iteration, lineno)
		self.picks = []            # executed tid per step
		self.queues_executed = None
		self.steps = 0
		self.max_steps = max_steps
		self.alloc_index = 0
		self.stale_pool = stale_pool if stale_pool is not None else {}
		self.allocs = []           # (index, shape, dtype, kind, array)
		self.n_parallel_for = 0
		sched = plan.get("sched") or {}
		self._rng = random.Random(sched.get("seed", 0))
		self._stick = float(sched.get("stick", 0.5))
		self._trace_in = list(plan.get("trace") or [])

	# -- allocator
	def alloc(self, shape, dtype):
		a = numpy.zeros(shape, dtype=dtype)
		conf = self.plan.get("alloc") or {}
		kind = (conf.get("by_index") or {}).get(str(self.alloc_index),
			conf.get("default", "zero"))
		key = (self.alloc_index, a.shape, str(a.dtype))
		if kind == "stale":
			old = self.stale_pool.get(key)
			if old is not None:
				a[...] = old
				self.stats["alloc.stale.reused"] = self.stats.get(
					"alloc.stale.reused", 0) + 1
			else:
				# first call of the run: nothing stale yet -> same-size garbage
				poison_fill(a, "rand", (conf.get("seed", 0) + self.alloc_index) % 2**31)
		else:
			poison_fill(a, kind, (conf.get("seed", 0) + self.alloc_index) % 2**31)
		self.stats["alloc." + kind] = self.stats.get("alloc." + kind, 0) + 1
		self.allocs.append((key, a))
		self.alloc_index += 1
		return a

	def retire_allocs(self):
		"""Remember final buffer contents for 'stale' allocations of later calls."""
		for key, a in self.allocs:
			self.stale_pool[key] = a.copy()
		self.allocs = []
		self.alloc_index = 0

	# -- work distribution
	def _queues(self, n):
		d = self.plan.get("dist") or {"kind": "static_block"}
		K = self.K
		kind = d["kind"]
		if kind == "explicit":
			qs = [list(q) for q in d["queues"]]
			while len(qs) < K:
				qs.append([])
			seen = sorted(i for q in qs for i in q)
			if seen != list(range(n)):
				# repair after minimisation changed n: drop unknown, append missing
				qs = [[i for i in q if i < n] for q in qs]
				have = set(i for q in qs for i in q)
				for i in range(n):
					if i not in have:
						qs[i % K].append(i)
			return qs, None
		if kind == "static_block":
			# OpenMP static schedule: ceil-sized contiguous blocks
			qs = [[] for _ in range(K)]
			base, rem = divmod(n, K)
			i = 0
			for t in range(K):
				sz = base + (1 if t < rem else 0)
				qs[t] = list(range(i, i + sz))
				i += sz
			return qs, None
		if kind == "cyclic":
			c = max(1, int(d.get("chunk", 1)))
			qs = [[] for _ in range(K)]
			for b, s in enumerate(range(0, n, c)):
				qs[b % K].extend(range(s, min(n, s + c)))
			return qs, None
		if kind == "one":
			qs = [[] for _ in range(K)]
			qs[int(d.get("tid", 0)) % K] = list(range(n))
			return qs, None
		if kind == "dynamic":
			c = max(1, int(d.get("chunk", 1)))
			shared = [list(range(s, min(n, s + c))) for s in range(0, n, c)]
			return [[] for _ in range(K)], shared
		raise ValueError("unknown distribution %r" % (d,))

	# -- the loop
	def parallel_for(self, *args):
		body = args[-1]
		rng_args = [int(a) for a in args[:-1]]
		iters = list(range(*rng_args))
		n = len(iters)
		self.n_parallel_for += 1
		qs, shared = self._queues(n)
		K = self.K
		cur = [None] * K           # (iteration index, generator)
		executed = [[] for _ in range(K)]
		last = None

		def runnable(t):
			return cur[t] is not None or bool(qs[t]) or bool(shared)

		while True:
			cands = [t for t in range(K) if runnable(t)]
			if not cands:
				break
			pick = None
			if self._trace_in:
				want = self._trace_in.pop(0)
				if want in cands:
					pick = want
			if pick is None:
				if last in cands and self._rng.random() < self._stick:
					pick = last
				else:
					pick = cands[self._rng.randrange(len(cands))]
			last = pick
			t = pick
			if cur[t] is None:
				if not qs[t] and shared:
					qs[t].extend(shared.pop(0))
				it = qs[t].pop(0)
				executed[t].append(it)
				cur[t] = (it, body(iters[it]))
			it, gen = cur[t]
			self.current = t
			self.steps += 1
			if self.steps > self.max_steps:
				raise SimAbort("step cap %d exceeded" % self.max_steps)
			try:
				line = next(gen)
			except StopIteration:
				line = -1
				cur[t] = None
			self.picks.append(t)
			self.trace.append((t, it, line))
		self.queues_executed = executed
		self.current = 0


def preemptible_lines(steppable):
	return list(steppable.body_lines)
