"""engines.modelops -- the model-taking API of tangermeme as generated,
fault-carrying operations (shared by C07 and C06).

An op spec is a small JSON dict; ``run_op(model, mspec, op)`` builds the inputs
deterministically from the seeds in the spec and calls the real tangermeme
function.  Reference generator / func / shuffle_fn / custom-rule arguments are
wrappers that report to the active FaultPlan (engines.modelworld.ACTIVE).
"""

import functools
import warnings

import numpy
import torch

from . import modelworld as mw

OPS = ["predict", "deep_lift_shap", "saturation_mutagenesis", "marginalize",
	"marginalize_annotations", "ablate", "ablate_annotations", "space",
	"substitution_effect", "deletion_effect", "insertion_effect", "apply_pairwise",
	"apply_product", "greedy_substitution"]

BAD_INPUTS = {
	"deep_lift_shap": ["ncol", "target_oob", "args_badlen", "ref_badshape_n",
		"ref_badshape_L", "channels", "cuda", "int_dtype", "refgen_badshape", "empty_X"],
	"predict": ["args_badlen", "channels", "cuda", "empty_X"],
	"saturation_mutagenesis": ["channels", "cuda", "args_badlen", "empty_X"],
	"marginalize": ["channels", "motif_too_long", "cuda"],
	"ablate": ["channels", "end_oob", "cuda"],
	"space": ["channels", "spacing_badshape"],
	"substitution_effect": ["channels", "pos_oob"],
	"deletion_effect": ["channels"],
	"insertion_effect": ["channels"],
	"apply_pairwise": ["channels"],
	"apply_product": ["channels"],
	"greedy_substitution": ["channels"],
	"marginalize_annotations": ["channels"],
	"ablate_annotations": ["channels"],
}


def _wrap(seam, fn):
	@functools.wraps(fn)
	def wrapper(*a, **kw):
		mw.ACTIVE.hit(seam)
		return fn(*a, **kw)
	return wrapper


def gen_op(r, mspec, ops=None, allow_dls_func=True):
	"""Random op spec for a model spec (r: simkit Stream)."""
	name = r.choice(ops or OPS)
	if name in ("apply_pairwise", "apply_product") and mspec.get("n_args", 0) != 1:
		name = r.choice(["predict", "deep_lift_shap", "marginalize", "ablate"])
	if name == "greedy_substitution" and (mspec.get("n_args", 0) or
			mspec.get("multi_output")):
		name = "saturation_mutagenesis"
	L = mspec["L"]
	op = {"op": name, "n": r.randint(1, 3), "xseed": r.subseed(),
		"batch_size": r.choice([1, 2, 3, 5, 32])}
	dls_kw = {"n_shuffles": r.randint(1, 4), "random_state": r.randint(0, 50),
		"hypothetical": r.chance(0.3), "raw_outputs": False,
		"target": r.randint(0, mspec["n_targets"] - 1),
		"refs": r.wchoice(["gen", "default", "tensor"], [5, 2, 2]),
		"return_references": False, "custom_rule": bool(mspec.get("uses_custom"))}
	if name == "deep_lift_shap":
		op["dls"] = dls_kw
		dls_kw["raw_outputs"] = r.chance(0.25)
		dls_kw["return_references"] = (dls_kw["refs"] != "tensor") and r.chance(0.3)
	elif name == "saturation_mutagenesis":
		s = r.randint(0, L - 2)
		op.update(start=s, end=r.choice([-1, r.randint(s + 1, L)]),
			target=r.randint(0, mspec["n_targets"] - 1), raw=r.chance(0.3),
			hypothetical=r.chance(0.3))
	elif name in ("marginalize", "marginalize_annotations", "ablate",
			"ablate_annotations", "space", "substitution_effect", "deletion_effect",
			"insertion_effect"):
		op["func"] = "deep_lift_shap" if (allow_dls_func and r.chance(0.3)) else "predict"
		if op["func"] == "deep_lift_shap":
			op["dls"] = dls_kw
		w = r.randint(1, min(4, L - 2))
		op["motif_seed"] = r.subseed()
		op["w"] = w
		op["start"] = r.randint(0, L - w)
		if name in ("ablate", "ablate_annotations"):
			op["n_shuf"] = r.randint(1, 3)
			op["end"] = min(L, op["start"] + max(2, w + 1))
			op["start"] = max(0, op["end"] - max(2, w + 1))
			op["rs"] = r.randint(0, 99)
			op["shuffle_fn"] = r.choice(["shuffle", "dinucleotide_shuffle"])
		if name == "space":
			op["w"] = min(w, max(1, (L - 3) // 2))
			op["spacing"] = [[0], [1]] if L >= 2 * op["w"] + 1 else [[0]]
			op["start"] = 0
		if name in ("substitution_effect", "deletion_effect", "insertion_effect"):
			op["n_var"] = r.randint(1, 3)
			op["left"] = r.chance(0.5)
	elif name in ("apply_pairwise", "apply_product"):
		op["m"] = r.randint(1, 3)
		op["func"] = r.choice(["predict", "predict", "marginalize"])
		op["w"] = 2
		op["motif_seed"] = r.subseed()
	elif name == "greedy_substitution":
		op["n"] = 1
		op["max_iter"] = r.randint(1, 2)
		op["motif_seed"] = r.subseed()
	return op


def _motif_str(seed, w):
	r = numpy.random.RandomState(seed % 2 ** 31)
	return "".join("ACGT"[i] for i in r.randint(0, 4, size=w))


def _dtype(mspec):
	return torch.float64 if mspec.get("dtype", "float64") == "float64" else torch.float32


def _dls_kwargs(mspec, d, n, L, X, bad=None):
	from tangermeme.ersatz import dinucleotide_shuffle
	kw = dict(target=d["target"], n_shuffles=d["n_shuffles"],
		hypothetical=d["hypothetical"], raw_outputs=d["raw_outputs"], device="cpu",
		random_state=d["random_state"], warning_threshold=1e9)
	if d["refs"] == "gen":
		kw["references"] = _wrap("refgen", dinucleotide_shuffle)
	elif d["refs"] == "tensor":
		mw.ACTIVE.armed, saved = False, mw.ACTIVE.armed
		try:
			refs = torch.stack([mw.gen_onehot(d["random_state"] * 131 + i,
				d["n_shuffles"], L, dtype=X.dtype) for i in range(n)])
		finally:
			mw.ACTIVE.armed = saved
		kw["references"] = refs
	if d.get("custom_rule"):
		kw["additional_nonlinear_ops"] = {mw.CustomAct: mw.custom_rule}
	if d.get("return_references"):
		kw["return_references"] = True
	if bad == "target_oob":
		kw["target"] = mspec["n_targets"] + 3
	elif bad == "ref_badshape_n":
		kw["references"] = torch.stack([mw.gen_onehot(7 + i, d["n_shuffles"], L,
			dtype=X.dtype) for i in range(max(1, n - 1))])[:max(0, n - 1)]
	elif bad == "ref_badshape_L":
		kw["references"] = torch.stack([mw.gen_onehot(7 + i, d["n_shuffles"], L + 1,
			dtype=X.dtype) for i in range(n)])
	elif bad == "refgen_badshape":
		kw["references"] = _wrap("refgen", lambda X, n=1, random_state=None:
			dinucleotide_shuffle(X[:, :, :-1], n=n, random_state=random_state))
	elif bad == "cuda":
		kw["device"] = "cuda"
	elif bad == "ncol" and d["refs"] == "tensor":
		kw.pop("references")
	return kw


def _func(op, mspec, n, L, X):
	"""(func, extra kwargs) for wrapper ops."""
	from tangermeme.predict import predict
	from tangermeme.deep_lift_shap import deep_lift_shap
	if op.get("func") == "deep_lift_shap":
		kw = _dls_kwargs(mspec, op["dls"], n, L, X)
		if isinstance(kw.get("references"), torch.Tensor):
			kw.pop("references")     # perturbed inputs have other batch sizes
			from tangermeme.ersatz import dinucleotide_shuffle
			kw["references"] = _wrap("refgen", dinucleotide_shuffle)
		kw.pop("return_references", None)
		kw["batch_size"] = op["batch_size"]
		return _wrap("func", deep_lift_shap), kw
	return _wrap("func", predict), {"device": "cpu", "batch_size": op["batch_size"]}


def run_op(model, mspec, op, bad=None):
	"""Execute one op (with an optional invalid-input variant).  Returns a list
	of tensors (normalised result)."""
	import tangermeme
	from tangermeme.predict import predict
	from tangermeme.deep_lift_shap import deep_lift_shap
	name = op["op"]
	n, L = op["n"], mspec["L"]
	dt = _dtype(mspec)
	X = mw.gen_onehot(op["xseed"], n, L, dtype=dt)
	if bad == "ncol":
		X[0, :, L // 2] = 0
	if bad == "channels":
		X = torch.cat([X, torch.zeros(n, 1, L, dtype=dt)], dim=1)
	if bad == "int_dtype":
		X = X.to(torch.int8)
	if bad == "empty_X":
		X = X[:0]
		n = 0
	args = None
	if mspec.get("n_args", 0):
		na = n - 1 if bad == "args_badlen" else n
		args = mw.make_args(mspec, na, dt)
	dev = "cuda" if bad == "cuda" else "cpu"
	with warnings.catch_warnings():
		warnings.simplefilter("ignore")
		if name == "predict":
			y = predict(model, X, args=args, batch_size=op["batch_size"], device=dev)
		elif name == "deep_lift_shap":
			kw = _dls_kwargs(mspec, op["dls"], n, L, X, bad=bad)
			y = deep_lift_shap(model, X, args=args, batch_size=op["batch_size"], **kw)
		elif name == "saturation_mutagenesis":
			from tangermeme.ism import saturation_mutagenesis
			y = saturation_mutagenesis(model, X, args=args, start=op["start"],
				end=op["end"], batch_size=op["batch_size"], target=op["target"],
				hypothetical=op["hypothetical"], raw_outputs=op["raw"], device=dev)
		elif name in ("marginalize", "marginalize_annotations"):
			from tangermeme.marginalize import marginalize, marginalize_annotations
			func, fkw = _func(op, mspec, n, L, X)
			if bad == "cuda":
				fkw["device"] = "cuda"
			w = L + 2 if bad == "motif_too_long" else op["w"]
			motif = _motif_str(op["motif_seed"], w)
			if name == "marginalize":
				y = marginalize(model, X, motif, start=op["start"], func=func, args=args,
					additional_func_kwargs=fkw)
			else:
				X0 = mw.gen_onehot(op["xseed"] + 1, n, L, dtype=dt)
				if bad == "channels":
					X0 = torch.cat([X0, torch.zeros(n, 1, L, dtype=dt)], dim=1)
				ann = torch.tensor([[i % n, op["start"], op["start"] + op["w"]]
					for i in range(2)])
				y = marginalize_annotations(model, X, X0, ann, func=func, args=args,
					additional_func_kwargs=fkw)
		elif name in ("ablate", "ablate_annotations"):
			from tangermeme.ablate import ablate, ablate_annotations
			from tangermeme import ersatz
			func, fkw = _func(op, mspec, n, L, X)
			if bad == "cuda":
				fkw["device"] = "cuda"
			sf = _wrap("shuffle_fn", getattr(ersatz, op["shuffle_fn"]))
			end = L + 3 if bad == "end_oob" else op["end"]
			if name == "ablate":
				y = ablate(model, X, op["start"], end, n=op["n_shuf"], shuffle_fn=sf,
					args=args, random_state=op["rs"], func=func,
					additional_func_kwargs=dict(fkw))
			else:
				ann = torch.tensor([[i % n, op["start"], end] for i in range(2)])
				a1 = None if args is None else tuple(a[:1] for a in args)
				y = ablate_annotations(model, X, ann, n=op["n_shuf"], shuffle_fn=sf,
					args=a1, random_state=op["rs"], func=func,
					additional_func_kwargs=dict(fkw))
		elif name == "space":
			from tangermeme.space import space
			func, fkw = _func(op, mspec, n, L, X)
			motifs = [_motif_str(op["motif_seed"], op["w"]),
				_motif_str(op["motif_seed"] + 1, op["w"])]
			spacing = [[0, 1]] if bad == "spacing_badshape" else op["spacing"]
			y = space(model, X, motifs, spacing, start=op["start"], func=func,
				args=args, additional_func_kwargs=fkw)
		elif name in ("substitution_effect", "deletion_effect", "insertion_effect"):
			from tangermeme import variant_effect as ve
			func, fkw = _func(op, mspec, n, L, X)
			r = numpy.random.RandomState(op["motif_seed"] % 2 ** 31)
			rows = []
			used = set()
			for _ in range(op["n_var"]):
				i, p = int(r.randint(0, n)), int(r.randint(1, L - 1))
				if (i, p) in used:
					continue
				used.add((i, p))
				rows.append([i, p, int(r.randint(0, 4))])
			if bad == "pos_oob":
				rows[0][1] = L + 5
			v = torch.tensor(rows)
			if name == "substitution_effect":
				y = ve.substitution_effect(model, X, v, args=args, func=func,
					additional_func_kwargs=fkw)
			elif name == "deletion_effect":
				y = ve.deletion_effect(model, X, v[:, :2], left=op["left"], args=args,
					func=func, additional_func_kwargs=fkw)
			else:
				y = ve.insertion_effect(model, X, v, left=op["left"], args=args,
					func=func, additional_func_kwargs=fkw)
		elif name in ("apply_pairwise", "apply_product"):
			from tangermeme.product import apply_pairwise, apply_product
			from tangermeme.marginalize import marginalize
			m = op["m"]
			alphas = torch.linspace(-0.5, 0.5, m + 2, dtype=dt)[1:m + 1].reshape(m, 1)
			if op["func"] == "marginalize":
				f = _wrap("func", marginalize)
				extra = {"motif": _motif_str(op["motif_seed"], op["w"])}
			else:
				f = _wrap("func", predict)
				extra = {}
			fn = apply_pairwise if name == "apply_pairwise" else apply_product
			y = fn(f, model, X, args=[alphas], batch_size=op["batch_size"], device="cpu",
				additional_func_kwargs=extra)
		elif name == "greedy_substitution":
			from tangermeme.design import greedy_substitution
			motifs = [_motif_str(op["motif_seed"], 2), _motif_str(op["motif_seed"] + 1, 3)]
			ytarget = torch.full((1, mspec["n_targets"]), 1.5, dtype=dt)
			loss = _wrap("loss", torch.nn.MSELoss(reduction="none"))
			y = greedy_substitution(model, X[:1], motifs, ytarget, loss=loss,
				max_iter=op["max_iter"],
				batch_size=op["batch_size"], device="cpu")
		else:
			raise ValueError(name)
	return flatten_result(y)


def flatten_result(y):
	if isinstance(y, torch.Tensor):
		return [y]
	if isinstance(y, (list, tuple)):
		out = []
		for v in y:
			out.extend(flatten_result(v))
		return out
	return [torch.as_tensor(y)]
