"""engines.parsim -- a simulated process pool with joblib.Parallel's contract.

``SimParallel(n_jobs=..)(iterable_of_delayed_calls)`` materialises the task
list, assigns tasks to W simulated workers, runs every task (atomically, in this
process) in a seeded start/completion order, optionally fails one worker, and
returns the results **in submission order** -- or in completion order only if
the code asked for ``return_as='generator_unordered'``.
"""

import random


class PoolWorkerFailed(RuntimeError):
	pass


class SimPool(object):
	def __init__(self, plan):
		"""plan: {'W': workers, 'seed': s, 'fail_task': index or None}"""
		self.plan = plan
		self.calls = []       # per Parallel() call: dict(n_tasks, order, kwargs)
		self.stats = {}

	def factory(self):
		pool = self

		class SimParallel(object):
			def __init__(self, n_jobs=None, **kw):
				self.n_jobs = n_jobs
				self.kw = kw

			def __call__(self, iterable):
				tasks = list(iterable)
				n = len(tasks)
				rng = random.Random(pool.plan.get("seed", 0))
				W = max(1, int(pool.plan.get("W", 1)))
				# tasks are dealt to workers as they free up; with atomic tasks the
				# observable schedule is the completion order
				queues = [[] for _ in range(W)]
				for i in range(n):
					queues[rng.randrange(W) if pool.plan.get("deal") == "random"
						else i % W].append(i)
				order = []
				while any(queues):
					w = rng.choice([k for k in range(W) if queues[k]])
					order.append(queues[w].pop(0))
				results = [None] * n
				fail = pool.plan.get("fail_task")
				for pos, i in enumerate(order):
					if fail is not None and i == fail % max(n, 1):
						pool.stats["pool.fail"] = pool.stats.get("pool.fail", 0) + 1
						raise PoolWorkerFailed("simulated worker died while running task %d"
							% i)
					func, args, kwargs = tasks[i]
					results[i] = func(*args, **kwargs)
				pool.calls.append({"n_tasks": n, "order": order, "n_jobs": self.n_jobs,
					"kw": dict(self.kw)})
				pool.stats["pool.tasks"] = pool.stats.get("pool.tasks", 0) + n
				if order != sorted(order):
					pool.stats["pool.out_of_order_completion"] = pool.stats.get(
						"pool.out_of_order_completion", 0) + 1
				ra = self.kw.get("return_as", "list")
				if ra == "generator_unordered":
					return (results[i] for i in order)
				if ra == "generator":
					return (r for r in results)
				return results
		return SimParallel
