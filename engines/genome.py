"""engines.genome -- generated worlds on disk: FASTA, MEME, BED, bigWig writers
and small helpers shared by C12 / C16 / C17.  Files go to the per-run scratch
directory only."""

import os

import numpy

COMP = {"A": "T", "C": "G", "G": "C", "T": "A", "N": "N",
	"a": "t", "c": "g", "g": "c", "t": "a", "n": "n"}


def revcomp(s):
	return "".join(COMP.get(c, "N") for c in reversed(s))


def fmtnum(v, style="repr"):
	"""Text of a probability in a MEME file; float(fmtnum(v)) is what the file states."""
	v = float(v)
	if style == "e":
		return "%.6e" % v
	if style == "f6":
		return "%.6f" % v
	if style == "int" and v == int(v):
		return "%d" % int(v)
	return repr(v)


def write_fasta(path, chroms, width=60, newline="\n", keep_index=False, descriptions=False):
	"""chroms: list of (name, sequence string).  keep_index: leave an existing
	.fai in place and make the FASTA 10 s newer than it (a regenerated genome
	next to a stale index, which pyfaidx rebuilds by default)."""
	with open(path, "w", newline="") as f:
		for name, seq in chroms:
			f.write(">" + name + (" len=%d some description" % len(seq) if descriptions
				else "") + newline)
			for i in range(0, len(seq), width):
				f.write(seq[i:i + width] + newline)
	fai = path + ".fai"
	if os.path.exists(fai):
		if keep_index:
			t = os.stat(fai).st_mtime + 10
			os.utime(path, (t, t))
		else:
			os.remove(fai)
	return path


def meme_text(motifs, layout=None):
	"""MEME text for motifs = list of (name, matrix (4, w) of floats).

	layout knobs (all optional): newline ('\\n' | '\\r\\n'), blank_after_matrix (int,
	number of blank lines after each matrix), url (bool), trailing_blanks (str
	appended to matrix rows), final_newline (bool), header (bool), nsites (bool),
	indent (str prefixed to matrix rows), blank_before_matrix (int).
	"""
	lo = dict(newline="\n", blank_after_matrix=1, url=True, trailing_blanks="",
		final_newline=True, header=True, nsites=True, indent="", blank_before_matrix=0,
		blank_after_last=None)
	lo.update(layout or {})
	nl = lo["newline"]
	lines = []
	if lo["header"]:
		lines += ["MEME version 4", "", "ALPHABET= ACGT", "", "strands: + -", "",
			"Background letter frequencies", "A 0.25 C 0.25 G 0.25 T 0.25", ""]
	for mi, (name, M) in enumerate(motifs):
		M = numpy.asarray(M)
		w = M.shape[1]
		lines.append("MOTIF " + name)
		lines += [""] * lo.get("blank_after_motif_line", 0)
		if lo.get("log_odds_section"):
			lines.append("log-odds matrix: alength= 4 w= %d E= 0" % w)
			for j in range(w):
				lines.append(" ".join("%d" % int(round(100 * (M[i, j] - 0.25))) for i in range(4)))
			lines.append("")
		head = "letter-probability matrix: alength= 4 w= %d" % w
		if lo["nsites"]:
			head += " nsites= 20 E= 0"
		lines.append(head)
		for j in range(w):
			lines.append(lo["indent"] + lo.get("sep", " ").join(fmtnum(M[i, j],
				lo.get("numfmt", "repr")) for i in range(4)) + lo["trailing_blanks"])
		last = mi == len(motifs) - 1
		nblank = lo["blank_after_matrix"]
		if last and lo["blank_after_last"] is not None:
			nblank = lo["blank_after_last"]
		if lo["url"]:
			lines.append("URL http://example.org/" + name.split()[0])
		lines += [""] * nblank
	text = nl.join(lines)
	if lo["final_newline"]:
		text += nl
	return text


def write_meme(path, motifs, layout=None):
	with open(path, "w", newline="") as f:
		f.write(meme_text(motifs, layout))
	return path


def write_bed(path, rows, newline="\n", trailing_blank=False):
	with open(path, "w", newline="") as f:
		for chrom, s, e in rows:
			f.write("%s\t%d\t%d%s" % (chrom, s, e, newline))
		if trailing_blank:
			f.write(newline)
	return path


def write_bigwig(path, chrom_sizes, signals):
	"""chrom_sizes: list of (name, length); signals: dict name -> float32 array
	(NaN = no data).  Written as runs of identical non-NaN values."""
	import pyBigWig
	bw = pyBigWig.open(path, "w")
	bw.addHeader([(n, int(l)) for n, l in chrom_sizes], maxZooms=0)
	for name, length in chrom_sizes:
		v = signals.get(name)
		if v is None:
			continue
		v = numpy.asarray(v, dtype="float32")
		chroms, starts, ends, vals = [], [], [], []
		i = 0
		n = len(v)
		while i < n:
			if numpy.isnan(v[i]):
				i += 1
				continue
			j = i + 1
			while j < n and v[j] == v[i]:
				j += 1
			chroms.append(name); starts.append(i); ends.append(j); vals.append(float(v[i]))
			i = j
		if chroms:
			bw.addEntries(chroms, starts, ends=ends, values=vals)
	bw.close()
	return path


def onehot_np(seq, alphabet="ACGT", dtype="int8"):
	"""(len(alphabet), L) one-hot of an upper/lower-case string; other chars -> 0."""
	X = numpy.zeros((len(alphabet), len(seq)), dtype=dtype)
	codes = numpy.frombuffer(seq.upper().encode("ascii", "replace"), dtype="uint8")
	for i, c in enumerate(alphabet):
		X[i, codes == ord(c)] = 1
	return X
