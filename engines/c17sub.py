"""Helper: run match.extract_matching_loci in a fresh interpreter (another
PYTHONHASHSEED) and dump the returned rows.  usage: c17sub.py in.pkl out.pkl"""
import os, pickle, sys, warnings
sys.path.insert(0, os.path.dirname(os.path.dirname(os.path.abspath(__file__))))
from simkit import repo
repo.setup()
import numpy, pandas
from tangermeme import match
spec = pickle.load(open(sys.argv[1], "rb"))
loci = spec["loci"]
if not isinstance(loci, str):
	loci = pandas.DataFrame(loci["rows"], columns=["chrom", "start", "end"])
with numpy.errstate(all="ignore"), warnings.catch_warnings():
	warnings.simplefilter("ignore")
	try:
		df = match.extract_matching_loci(loci, spec["fasta"], n_jobs=1, **spec["kw"])
		rows = [(str(c), int(s), int(e)) for c, s, e in zip(df["chrom"].tolist(),
			df["start"].tolist(), df["end"].tolist())]
		res = {"rows": rows}
	except Exception as e:
		res = {"error": "%s: %s" % (type(e).__name__, str(e)[:200])}
pickle.dump(res, open(sys.argv[2], "wb"))
