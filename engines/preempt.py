"""engines.preempt -- statement-level pre-emption of a Python call by an
interfering "thread".

``run_with_interference(fn, module_prefix, points, interfere)`` runs ``fn()``
under ``sys.settrace``; every 'line' event inside a function whose module name
starts with ``module_prefix`` is a pre-emption point, numbered 1, 2, ...  At the
points listed in ``points`` the interfering action runs to completion before the
call continues -- exactly what a second thread that is scheduled at that
instant does to *process-global* state under the GIL (for thread-local state
the interference would have to run on another thread; the actions used here
only touch process-global generators).  Returns (result, number of points seen,
points at which the interference fired).
"""

import sys


def run_with_interference(fn, module_prefix, points, interfere):
	points = set(points or ())
	state = {"n": 0, "fired": []}

	def local(frame, event, arg):
		if event == "line":
			state["n"] += 1
			if state["n"] in points:
				sys.settrace(None)
				try:
					interfere(state["n"])
					state["fired"].append(state["n"])
				finally:
					sys.settrace(tracer)
		return local

	def tracer(frame, event, arg):
		if event != "call":
			return None
		mod = frame.f_globals.get("__name__", "")
		if mod.startswith(module_prefix):
			return local
		return None

	old = sys.gettrace()
	sys.settrace(tracer)
	try:
		res = fn()
	finally:
		sys.settrace(old)
	return res, state["n"], state["fired"]
